---- MODULE WatchRecursive ----
(***************************************************************************)
(* Growth beyond C12/C13: the recursive-watch mode of the local endpoint    *)
(* (pkg/synchronization/endpoint/local/endpoint.go: watchRecursive, Scan,   *)
(* scan, Transition) - the machinery that PRODUCES the re-check paths and   *)
(* the baseline that C13 takes as given.                                    *)
(*                                                                         *)
(* Actions are named after the code:                                        *)
(*   Establish / RetryWait     watching.NewRecursiveWatcher + the retry wait *)
(*   TimerFire                 `case <-timer.C`: baseline scan under the     *)
(*                             scan lock, accelerate = true, recheckPaths =  *)
(*                             {} (or re-arm on failure), strobe             *)
(*   TakeEvent / RegisterEvent `case path := <-watcher.Events()` and, after  *)
(*                             the scan lock is obtained, recheckPaths[path] *)
(*                             (only while accelerate), strobe               *)
(*   TakeError / RegisterError `case err := <-watcher.Errors()`: accelerate  *)
(*                             = false, recheckPaths = nil, timer stopped,   *)
(*                             strobe, watcher terminated, wait one polling  *)
(*                             interval after an internal overflow           *)
(*   Poll                      the controller's Poll returns                 *)
(*   Scan(full)                endpoint.Scan under the scan lock: accelerated *)
(*                             (baseline + recheckPaths, which are then       *)
(*                             reset) or full                                 *)
(*   TransitionWork/Register   Transition: disk work without the lock, then   *)
(*                             the transition roots go into recheckPaths      *)
(* Every body that runs under the scan lock is one atomic action; the gap    *)
(* between receiving from a channel and obtaining the lock is a separate      *)
(* state (wpc = "handleEvent"/"handleError").                                 *)
(* Environment: Edit(p) (the kernel queues the path or its parent, or the     *)
(* queue overflows), WatchDies (any other watcher error).                     *)
(*                                                                         *)
(* The disk is abstracted to `stale`: the paths whose entry in e.snapshot is  *)
(* not what the disk holds.  AccelScan.tla proves what an accelerated scan    *)
(* repairs: exactly the stale paths whose parent directory is an              *)
(* ancestor-or-self of a re-check path (Covered); a full scan repairs all.    *)
(*                                                                         *)
(* Properties (this is C13's premise, as an inductive invariant):             *)
(*   Inv_Premise        while acceleration is on, every stale path is covered  *)
(*                      by recheckPaths or its notification is still in flight *)
(*                      (queued, being handled, or an error is pending)        *)
(*   Inv_ReturnedWrong  a snapshot returned by Scan is wrong only at paths     *)
(*                      whose notification was in flight when it was taken     *)
(*   Inv_ErrorDisables  after a watcher error acceleration stays off until a   *)
(*                      new watch is established and a full scan has been made *)
(*   Inv_TransitionCovered  what Transition changed is covered at the next     *)
(*                      accelerated scan even if the kernel has not reported it *)
(*   Inv_NoRecheckWhenOff, Inv_SignalNotLost                                   *)
(***************************************************************************)
EXTENDS Naturals, FiniteSets, Sequences, TLC

CONSTANTS Paths,                \* paths that can change (sequences of names)
          AccelerationAllowed,  \* scan mode "accelerated"
          QueueBound,           \* kernel queue capacity
          MaxEdits, MaxFaults, MaxTransitions,
          Variant               \* "code", or a deliberately broken control variant

VARIABLES stale, accelerate, recheck, wpc, cur, alive, q, werr, timer, signalled,
          ctl, tpath, returnedWrong, baselined, applied, edits, faults, transitions
vars == <<stale, accelerate, recheck, wpc, cur, alive, q, werr, timer, signalled,
          ctl, tpath, returnedWrong, baselined, applied, edits, faults, transitions>>

Parent(p) == SubSeq(p, 1, Len(p) - 1)
IsPrefix(p, r) == Len(p) <= Len(r) /\ SubSeq(r, 1, Len(p)) = p
\* an accelerated scan with re-check set R re-examines p (AccelScan!ParentOrSelfReported, generalised:
\* p's parent directory is scanned, not re-used, iff it is an ancestor-or-self of some re-check path)
Covered(p, R) == p = <<>> \/ \E r \in R : IsPrefix(Parent(p), r)
\* what the kernel may report for a change of p
EventsFor(p) == IF p = <<>> THEN {p} ELSE {p, Parent(p)}

InFlight(p) ==
  \/ \E i \in DOMAIN q : Covered(p, {q[i]})
  \/ (wpc = "handleEvent" /\ Covered(p, {cur}))
  \/ werr # "none" \/ wpc = "handleError"
  \/ (ctl = "transition" /\ tpath = p)

Init ==
  /\ stale = {} /\ accelerate = FALSE /\ recheck = {} /\ wpc = "establish" /\ cur = "none"
  /\ alive = FALSE /\ q = <<>> /\ werr = "none" /\ timer = "off" /\ signalled = FALSE
  /\ ctl = "poll" /\ tpath = <<>> /\ returnedWrong = {} /\ baselined = FALSE /\ applied = {}
  /\ edits = 0 /\ faults = 0 /\ transitions = 0

\* ---- the watching Goroutine ------------------------------------------------
Establish ==
  /\ wpc = "establish"
  /\ \/ /\ alive' = TRUE /\ q' = <<>> /\ werr' = "none" /\ wpc' = "running"
        /\ IF AccelerationAllowed
           THEN /\ timer' = "now" /\ UNCHANGED signalled
           ELSE /\ timer' = "off" /\ signalled' = TRUE
        /\ IF Variant = "accelerate_at_establish"      \* control: trusts the last snapshot without a new baseline scan
           THEN accelerate' = AccelerationAllowed /\ baselined' = TRUE
           ELSE UNCHANGED <<accelerate, baselined, applied>>
        /\ UNCHANGED faults
     \/ /\ faults < MaxFaults /\ faults' = faults + 1
        /\ signalled' = TRUE /\ wpc' = "retrywait"
        /\ UNCHANGED <<alive, q, werr, timer, accelerate, baselined, applied>>
  /\ UNCHANGED <<stale, recheck, cur, ctl, tpath, returnedWrong, applied, edits, transitions>>

RetryWait ==      \* the polling interval elapsed, or Transition suggested a retry
  /\ wpc \in {"retrywait", "overflowwait"} /\ wpc' = "establish"
  /\ UNCHANGED <<stale, accelerate, recheck, cur, alive, q, werr, timer, signalled, ctl, tpath, returnedWrong, baselined, applied, edits, faults, transitions>>

TimerFire ==
  /\ wpc = "running" /\ timer # "off" /\ AccelerationAllowed
  /\ \/ /\ stale' = {} /\ accelerate' = TRUE /\ recheck' = {} /\ timer' = "off" /\ baselined' = TRUE   \* e.scan(ctx, nil, nil) succeeded
        /\ applied' = {} /\ UNCHANGED faults
     \/ /\ faults < MaxFaults /\ faults' = faults + 1                                              \* baseline scan failed
        /\ timer' = "later" /\ UNCHANGED <<stale, accelerate, recheck, baselined, applied>>
  /\ signalled' = TRUE
  /\ UNCHANGED <<wpc, cur, alive, q, werr, ctl, tpath, returnedWrong, edits, transitions>>

TakeEvent ==
  /\ wpc = "running" /\ q # <<>>
  /\ cur' = Head(q) /\ q' = Tail(q) /\ wpc' = "handleEvent"
  /\ UNCHANGED <<stale, accelerate, recheck, alive, werr, timer, signalled, ctl, tpath, returnedWrong, baselined, applied, edits, faults, transitions>>

RegisterEvent ==
  /\ wpc = "handleEvent"
  /\ recheck' = IF AccelerationAllowed /\ accelerate THEN recheck \cup {cur} ELSE recheck
  /\ signalled' = TRUE /\ wpc' = "running" /\ cur' = "none"
  /\ UNCHANGED <<stale, accelerate, alive, q, werr, timer, ctl, tpath, returnedWrong, baselined, applied, edits, faults, transitions>>

TakeError ==
  /\ wpc = "running" /\ werr # "none"
  /\ cur' = werr /\ werr' = "none" /\ wpc' = "handleError"
  /\ UNCHANGED <<stale, accelerate, recheck, alive, q, timer, signalled, ctl, tpath, returnedWrong, baselined, applied, edits, faults, transitions>>

RegisterError ==
  /\ wpc = "handleError"
  /\ IF Variant = "error_keeps_acceleration"        \* control
     THEN UNCHANGED <<accelerate, recheck, baselined, applied>>
     ELSE accelerate' = FALSE /\ recheck' = {} /\ baselined' = FALSE
  /\ timer' = "off" /\ signalled' = TRUE /\ alive' = FALSE /\ q' = <<>>
  /\ wpc' = IF cur = "overflow" THEN "overflowwait" ELSE "establish"
  /\ cur' = "none"
  /\ UNCHANGED <<stale, werr, ctl, tpath, returnedWrong, applied, edits, faults, transitions>>

\* ---- the environment ---------------------------------------------------------
Notify(p) ==      \* what the kernel does with a change of p
  IF ~alive THEN UNCHANGED <<q, werr, alive>>
  ELSE IF Len(q) < QueueBound
       THEN \E ev \in EventsFor(p) : q' = Append(q, ev) /\ UNCHANGED <<werr, alive>>
       ELSE werr' = "overflow" /\ alive' = FALSE /\ q' = <<>>          \* queue overflow: the watcher's run loop ends

Edit(p) ==
  /\ edits < MaxEdits /\ edits' = edits + 1
  /\ stale' = stale \cup {p}
  /\ Notify(p)
  /\ UNCHANGED <<accelerate, recheck, wpc, cur, timer, signalled, ctl, tpath, returnedWrong, baselined, applied, faults, transitions>>

WatchDies ==
  /\ alive /\ werr = "none" /\ faults < MaxFaults /\ faults' = faults + 1
  /\ werr' = "other" /\ alive' = FALSE /\ q' = <<>>
  /\ UNCHANGED <<stale, accelerate, recheck, wpc, cur, timer, signalled, ctl, tpath, returnedWrong, baselined, applied, edits, transitions>>

\* ---- the controller (sequential user of the endpoint) -------------------------
Poll ==
  /\ ctl = "poll" /\ signalled /\ signalled' = FALSE /\ ctl' = "scan"
  /\ UNCHANGED <<stale, accelerate, recheck, wpc, cur, alive, q, werr, timer, tpath, returnedWrong, baselined, applied, edits, faults, transitions>>

Scan(full) ==
  /\ ctl = "scan"
  /\ IF accelerate /\ ~full
     THEN \/ /\ stale' = {p \in stale : ~Covered(p, recheck)}
             /\ returnedWrong' = {p \in stale' : ~InFlight(p)}
             /\ recheck' = {} /\ ctl' = "decide" /\ applied' = {} /\ UNCHANGED faults
          \/ /\ faults < MaxFaults /\ faults' = faults + 1                  \* the scan failed: the controller retries
             /\ recheck' = IF Variant = "failed_scan_clears_recheck" THEN {} ELSE recheck
             /\ UNCHANGED <<stale, returnedWrong, ctl, applied>>
     ELSE /\ stale' = {} /\ returnedWrong' = {} /\ ctl' = "decide" /\ applied' = {}
          /\ UNCHANGED <<recheck, faults>>
  /\ UNCHANGED <<accelerate, wpc, cur, alive, q, werr, timer, signalled, tpath, baselined, applied, edits, transitions>>

Decide ==        \* the controller either has nothing to apply or applies a change at some path
  /\ ctl = "decide"
  /\ \/ ctl' = "poll" /\ UNCHANGED <<tpath, transitions>>
     \/ /\ transitions < MaxTransitions /\ transitions' = transitions + 1
        /\ \E p \in Paths : tpath' = p
        /\ ctl' = "transition"
  /\ UNCHANGED <<stale, accelerate, recheck, wpc, cur, alive, q, werr, timer, signalled, returnedWrong, baselined, applied, edits, faults>>

TransitionWork ==    \* disk work of Transition (the scan lock is not held); the kernel sees it like any other change
  /\ ctl = "transition" /\ tpath \notin stale
  /\ stale' = stale \cup {tpath}
  /\ Notify(tpath)
  /\ UNCHANGED <<accelerate, recheck, wpc, cur, timer, signalled, ctl, tpath, returnedWrong, baselined, applied, edits, faults, transitions>>

TransitionRegister ==   \* back under the lock: transition roots become re-check paths
  /\ ctl = "transition" /\ tpath \in stale
  /\ recheck' = IF accelerate /\ Variant # "transition_not_registered" THEN recheck \cup {tpath} ELSE recheck
  /\ ctl' = "poll" /\ applied' = applied \cup {tpath}
  /\ signalled' = TRUE          \* the controller goes round again after applying changes
  /\ UNCHANGED <<stale, accelerate, wpc, cur, alive, q, werr, timer, tpath, returnedWrong, baselined, edits, faults, transitions>>

Next ==
  \/ Establish \/ RetryWait \/ TimerFire \/ TakeEvent \/ RegisterEvent \/ TakeError \/ RegisterError
  \/ (\E p \in Paths : Edit(p)) \/ WatchDies
  \/ Poll \/ (\E full \in BOOLEAN : Scan(full)) \/ Decide \/ TransitionWork \/ TransitionRegister
Spec == Init /\ [][Next]_vars

\* ---- properties ----------------------------------------------------------------
TypeOK ==
  /\ stale \subseteq Paths /\ accelerate \in BOOLEAN /\ Len(q) <= QueueBound
  /\ wpc \in {"establish", "retrywait", "overflowwait", "running", "handleEvent", "handleError"}
  /\ timer \in {"off", "now", "later"} /\ werr \in {"none", "overflow", "other"}

Inv_Premise == accelerate => \A p \in stale : Covered(p, recheck) \/ InFlight(p)
Inv_ReturnedWrong == returnedWrong = {}
Inv_ErrorDisables == accelerate => baselined /\ AccelerationAllowed
\* no stale-scan inversion: what Transition itself changed is re-examined by the very next accelerated scan,
\* whether or not the kernel has reported it yet
Inv_TransitionCovered == accelerate /\ ctl \in {"poll", "scan"} => \A p \in applied \cap stale : Covered(p, recheck)
Inv_NoRecheckWhenOff == ~accelerate => recheck = {}
\* a change is never left unsignalled: if the snapshot is stale, acceleration is on, nothing is in flight and the
\* controller is waiting in Poll, then the poll signal is (still) raised
Inv_SignalNotLost ==
  accelerate /\ ctl = "poll" /\ wpc = "running" /\ (\E p \in stale : ~InFlight(p)) => signalled
====
