CONSTANTS MaxLen = 4 LoseValues = FALSE
SPECIFICATION Spec
INVARIANT Inv_ChainEqualsCold
CHECK_DEADLOCK FALSE
