CONSTANTS Paths <- MCPaths AccelerationAllowed = TRUE QueueBound = 2 MaxEdits = 3 MaxFaults = 2 MaxTransitions = 1 Variant = "accelerate_at_establish"
SPECIFICATION Spec
INVARIANTS TypeOK Inv_Premise Inv_ReturnedWrong Inv_ErrorDisables Inv_TransitionCovered Inv_NoRecheckWhenOff Inv_SignalNotLost
CHECK_DEADLOCK FALSE
