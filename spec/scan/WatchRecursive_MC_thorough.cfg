CONSTANTS Paths <- MCPaths AccelerationAllowed = TRUE QueueBound = 2 MaxEdits = 5 MaxFaults = 3 MaxTransitions = 2 Variant = "code"
SPECIFICATION Spec
INVARIANTS TypeOK Inv_Premise Inv_ReturnedWrong Inv_ErrorDisables Inv_TransitionCovered Inv_NoRecheckWhenOff Inv_SignalNotLost
CHECK_DEADLOCK FALSE
