---- MODULE ScanContract ----
(***************************************************************************)
(* C12 - what a snapshot must say about a filesystem.                       *)
(*                                                                         *)
(* Input: DISK FACTS, a tree of records as an independent walker reads     *)
(* them (no mutagen code involved):                                        *)
(*   every node   t    "dir" | "file" | "link" | "other" ("none": no root) *)
(*   non-root     u8   the name is valid UTF-8                             *)
(*                tmp  the name starts with ".mutagen-temporary-"          *)
(*                nfc  token of the NFC form of the name                   *)
(*                segs (only if ~u8) the name as maximal runs              *)
(*                     [ok |-> valid UTF-8?, h |-> hex of the bytes]       *)
(*                ig, ct  the ignorer's verdict for (path, is-directory):  *)
(*                     "nom" | "ign" | "unign", continue-traversal flag    *)
(*   file         m (permission bits), sz, d (content digest), rd          *)
(*                (content can be opened), mt, ino (stamp)                 *)
(*   link         tg (target token), tl (length in bytes), tc (components  *)
(*                split at "/"), abs, col, bs (starts with "/", contains   *)
(*                ":", contains "\"), rl (readlink succeeds)               *)
(*   dir          xdev (on another device than the root), rd (can be       *)
(*                opened), ls (can be listed), c (raw-name token -> node)  *)
(* and a CONFIGURATION [sym, perm, pres, decomp].                          *)
(*                                                                         *)
(* Observe(facts, cfg) is the abstraction function; the property is the    *)
(* exactness statement  snapshot = Observe(facts, cfg), plus: the four     *)
(* counters equal what the snapshot's own content adds up to.              *)
(* Entries use the shared vocabulary of Entries.tla; the text of a problem *)
(* is not part of the contract (Shape drops it).                           *)
(***************************************************************************)
EXTENDS Entries

Prob == [k |-> "problem"]

\* ---- names ---------------------------------------------------------------
Replacement == "efbfbd"                       \* U+FFFD in UTF-8, hex
NonUtf8Suffix == "20286e6f6e2d5554462d3829"   \* " (non-UTF-8)" in hex

RECURSIVE ConcatRuns(_)
ConcatRuns(segs) == IF segs = <<>> THEN ""
                    ELSE (IF Head(segs).ok THEN Head(segs).h ELSE Replacement) \o ConcatRuns(Tail(segs))
\* the key under which content with a non-UTF-8 name is recorded: every run of
\* invalid bytes replaced by one U+FFFD, then " (non-UTF-8)"
EscapedKey(node) == "hex:" \o ConcatRuns(node.segs) \o NonUtf8Suffix

\* the key under which content with a valid name is recorded
Key(raw, node, cfg) == IF cfg.decomp THEN node.nfc ELSE raw

\* ---- files ---------------------------------------------------------------
AnyExec(m) == (m \div 64) % 2 = 1 \/ (m \div 8) % 2 = 1 \/ m % 2 = 1
Executable(node, cfg) == cfg.perm = "portable" /\ cfg.pres /\ AnyExec(node.m)

ObsFile(node, cfg) == IF node.rd THEN F(node.d, Executable(node, cfg)) ELSE Prob

\* ---- symbolic links --------------------------------------------------------
\* depth = number of directories between the root and the link (0 directly in
\* the root).  Walking the target's components may never leave the root.
\* "" (an empty component) is what POSIX resolves like "."; the driver does not
\* generate such targets (their treatment is C16's subject).
RECURSIVE StaysInside(_, _)
StaysInside(depth, comps) ==
  IF comps = <<>> THEN TRUE
  ELSE LET c == Head(comps) IN
       IF c = "." \/ c = "" THEN StaysInside(depth, Tail(comps))
       ELSE IF c = ".." THEN depth > 0 /\ StaysInside(depth - 1, Tail(comps))
       ELSE StaysInside(depth + 1, Tail(comps))

MaxPortableTarget == 247
PortableTarget(node, depth) ==
  /\ node.tl > 0 /\ node.tl <= MaxPortableTarget
  /\ ~node.col /\ ~node.bs /\ ~node.abs
  /\ StaysInside(depth, node.tc)

ObsLink(node, depth, cfg) ==
  CASE cfg.sym = "ignore" -> U
    [] cfg.sym = "portable" -> (IF node.rl /\ PortableTarget(node, depth) THEN L(node.tg) ELSE Prob)
    [] cfg.sym = "posix" -> (IF node.rl /\ node.tl > 0 THEN L(node.tg) ELSE Prob)

\* ---- ignoring --------------------------------------------------------------
\* Outcome of the ignore verdict for content found under ignore mask `mask`:
\* "skip" = recorded as untracked, otherwise the mask its own content is under.
Ignoring(node, mask) ==
  CASE node.ig = "nom"   -> (IF mask /\ ~node.ct THEN "skip" ELSE IF mask THEN "masked" ELSE "plain")
    [] node.ig = "ign"   -> (IF ~node.ct THEN "skip" ELSE "masked")
    [] node.ig = "unign" -> "plain"

\* ---- directories -----------------------------------------------------------
Visible(node) == ~node.tmp                      \* temporaries are omitted altogether

RECURSIVE ObsDir(_, _, _, _)
\* content with a valid name
ObsChild(ch, depth, mask, cfg) ==
  IF ch.t = "other" THEN U
  ELSE LET g == Ignoring(ch, mask) IN
       IF g = "skip" THEN U
       ELSE CASE ch.t = "file" -> ObsFile(ch, cfg)
              [] ch.t = "link" -> ObsLink(ch, depth, cfg)
              [] ch.t = "dir"  -> ObsDir(ch, depth + 1, g = "masked", cfg)

\* node: a directory at `depth` (root = 0) whose content is under ignore mask `mask`
ObsDir(node, depth, mask, cfg) ==
  IF node.xdev \/ ~node.rd \/ ~node.ls THEN Prob
  ELSE LET vis == {n \in DOMAIN node.c : Visible(node.c[n])}
           KeyOf(n) == IF node.c[n].u8 THEN Key(n, node.c[n], cfg) ELSE EscapedKey(node.c[n])
           keys == {KeyOf(n) : n \in vis}
           Src(k) == CHOOSE n \in vis : KeyOf(n) = k
           Ent(n) == IF ~node.c[n].u8 THEN (IF mask THEN U ELSE Prob)
                     ELSE ObsChild(node.c[n], depth, mask, cfg)
       IN [k |-> IF mask THEN "phantom" ELSE "dir", c |-> [k \in keys |-> Ent(Src(k))]]

\* distinct names of one directory must map to distinct keys for the contract
\* to determine the snapshot (the code says "hopefully non-colliding")
RECURSIVE KeysDistinct(_, _)
KeysDistinct(node, cfg) ==
  node.t = "dir" =>
    /\ \A n1, n2 \in {n \in DOMAIN node.c : Visible(node.c[n])} :
         n1 # n2 => (IF node.c[n1].u8 THEN Key(n1, node.c[n1], cfg) ELSE EscapedKey(node.c[n1]))
                  # (IF node.c[n2].u8 THEN Key(n2, node.c[n2], cfg) ELSE EscapedKey(node.c[n2]))
    /\ \A n \in DOMAIN node.c : KeysDistinct(node.c[n], cfg)

\* ---- the whole snapshot -----------------------------------------------------
\* Roots: nothing -> empty snapshot; directory; file; anything else cannot be
\* scanned (the scan fails).
Scannable(facts) == facts.t \in {"none", "dir", "file"}
Observe(facts, cfg) ==
  CASE facts.t = "none" -> Nil
    [] facts.t = "dir"  -> ObsDir(facts, 0, FALSE, cfg)
    [] facts.t = "file" -> ObsFile(facts, cfg)

\* ---- comparing with a recorded snapshot ------------------------------------
RECURSIVE Shape(_)
Shape(e) == IF e.k = "problem" THEN Prob
            ELSE IF HasContents(e) THEN [k |-> e.k, c |-> [n \in DOMAIN e.c |-> Shape(e.c[n])]]
            ELSE e

\* ---- counters ---------------------------------------------------------------
\* "its reported directory, file, link and byte counts match its content":
\* every directory-kind entry (phantom ones too: they are transmitted), every
\* file entry, every link entry; bytes = the sizes of the files that appear as
\* file entries.
RECURSIVE CountKind(_, _)
RECURSIVE SumKind(_, _, _)
SumKind(e, S, kinds) == IF S = {} THEN 0
                        ELSE LET n == CHOOSE x \in S : TRUE IN CountKind(e.c[n], kinds) + SumKind(e, S \ {n}, kinds)
CountKind(e, kinds) == (IF e.k \in kinds THEN 1 ELSE 0)
                       + (IF HasContents(e) THEN SumKind(e, DOMAIN e.c, kinds) ELSE 0)

\* bytes: walk snapshot and facts together
RECURSIVE Bytes(_, _, _)
RECURSIVE SumBytes(_, _, _, _)
SumBytes(e, node, S, cfg) ==
  IF S = {} THEN 0
  ELSE LET n == CHOOSE x \in S : TRUE
           ch == node.c[n]
           k == IF ch.u8 THEN Key(n, ch, cfg) ELSE EscapedKey(ch)
       IN (IF Visible(ch) /\ k \in DOMAIN e.c THEN Bytes(e.c[k], ch, cfg) ELSE 0) + SumBytes(e, node, S \ {n}, cfg)
Bytes(e, node, cfg) ==
  IF e.k = "file" /\ node.t = "file" THEN node.sz
  ELSE IF HasContents(e) /\ node.t = "dir" THEN SumBytes(e, node, DOMAIN node.c, cfg)
  ELSE 0

Counters(e, facts, cfg) ==
  [dirs  |-> CountKind(e, {"dir", "phantom"}),
   files |-> CountKind(e, {"file"}),
   links |-> CountKind(e, {"link"}),
   bytes |-> Bytes(e, facts, cfg)]

\* ---- the property -------------------------------------------------------------
\* scan = what the real Scan returned: [ok, content, dirs, files, links, bytes, pres, decomp]
C12_ScanCompletes(facts, scan) == Scannable(facts) <=> scan.ok
C12_SnapshotExact(facts, cfg, scan) ==
  scan.ok /\ Scannable(facts) => Shape(scan.content) = Observe(facts, cfg)
C12_CountsMatchContent(facts, cfg, scan) ==
  scan.ok /\ Scannable(facts) =>
    [dirs |-> scan.dirs, files |-> scan.files, links |-> scan.links, bytes |-> scan.bytes]
      = Counters(scan.content, facts, cfg)
C12_BehaviourReported(cfg, scan) ==
  scan.ok /\ scan.content # Nil => scan.pres = cfg.pres /\ scan.decomp = cfg.decomp
====
