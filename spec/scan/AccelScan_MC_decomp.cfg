CONSTANTS Decomp = TRUE Wide = FALSE MaxExtra = 1 Mixture = FALSE
SPECIFICATION Spec
INVARIANT Inv_C13Design
CHECK_DEADLOCK FALSE
