---- MODULE DockerChain_MC ----
(***************************************************************************)
(* Accelerated-scan HISTORIES under Docker-style ignores.  A Docker pattern *)
(* list with an exclusion and a re-inclusion beneath it (p/e, !p/e/k) makes  *)
(* the ignorer answer, for the paths of this universe,                       *)
(*    p        nominal                        a tracked directory            *)
(*    p/x      nominal                        tracked content                *)
(*    p/e      ignored, continue traversal    -> phantom directory           *)
(*             (ignored, no continuation, when it is a file)                 *)
(*    p/e/k    un-ignored                     re-included (file or directory)*)
(*    p/e/k/a  nominal                        tracked content of it          *)
(*    p/e/m    nominal                        masked -> untracked            *)
(*    q        nominal                        "elsewhere"                    *)
(* so the ignore cache carries the richer values (Ignored with traversal     *)
(* continuation, Un-ignored beneath a mask).  A history is a chain of scans, *)
(* each fed the snapshot, digest cache and ignore cache RETURNED BY THE       *)
(* PREVIOUS ONE (exactly as the endpoint does): a full warm scan, an          *)
(* accelerated scan with no re-check paths (the early return), with a         *)
(* re-check path elsewhere (p is re-used from the baseline and its caches     *)
(* propagated), with a re-check path inside the excluded directory - in any   *)
(* order, with or without a change of the disk in between (then the changed   *)
(* paths are re-checked too).  Every scan of every chain of length <= MaxLen  *)
(* must equal a cold scan of the same disk: snapshot, counters, digest cache, *)
(* and the ignore cache must agree with the cold one on the cold one's keys   *)
(* and have no others.                                                        *)
(***************************************************************************)
EXTENDS AccelScan

CONSTANTS MaxLen, LoseValues      \* LoseValues: control variant - baseline re-use writes zero-value ignore-cache entries

Cfg == [sym |-> "portable", perm |-> "portable", pres |-> TRUE, decomp |-> FALSE]

Verdict(path, isDir) ==
  CASE path = <<"p", "e">> -> (IF isDir THEN [ig |-> "ign", ct |-> TRUE] ELSE [ig |-> "ign", ct |-> FALSE])
    [] path = <<"p", "e", "k">> -> [ig |-> "unign", ct |-> FALSE]
    [] path = <<"p", "e", "m">> -> [ig |-> "nom", ct |-> isDir]
    [] OTHER -> [ig |-> "nom", ct |-> FALSE]

FileS(d, s) == [t |-> "file", d |-> d, mt |-> s, sz |-> 3, ino |-> "i", m |-> 420, rd |-> TRUE]
F1 == FileS("d1", "s1")
F2 == FileS("d2", "s2")
DirS(c) == [t |-> "dir", ino |-> "i0", xdev |-> FALSE, rd |-> TRUE, ls |-> TRUE, c |-> c]
Opt(n, S) == {<<>>} \cup {(n :> x) : x \in S}                      \* name absent, or bound to a member of S
Join(A, B) == {a @@ b : a \in A, b \in B}
KDirs == {DirS(c) : c \in Opt("a", {F1, F2})}
EDirs == {DirS(c) : c \in Join(Opt("k", {F1, F2} \cup KDirs), Opt("m", {F1}))}
PDirs == {DirS(c) : c \in Join(Opt("x", {F1, F2}), Opt("e", {F1} \cup EDirs))}
Disks == {DirS(c) : c \in Join(Opt("p", PDirs), Opt("q", {F1, F2}))}

RECURSIVE Dress(_, _)
Dress(path, s) ==
  LET nm == IF path = <<>> THEN <<>> ELSE
            [u8 |-> TRUE, tmp |-> FALSE, nfc |-> path[Len(path)]] @@ Verdict(path, s.t = "dir")
  IN IF s.t = "dir" THEN nm @@ [s EXCEPT !.c = [n \in DOMAIN s.c |-> Dress(Append(path, n), s.c[n])]]
     ELSE nm @@ s
RC(R) == {[raw |-> p, nfc |-> p] : p \in R}

Elsewhere == {<<"q">>}
Inside == {<<"p", "e", "m">>, <<"p", "e", "k", "a">>}
Kinds == {"warm", "none", "elsewhere", "inside"}

VARIABLES disk, held, len, good
cvars == <<disk, held, len, good>>

\* the control variant damages what an accelerated scan returns in the way the seeded mutant does: every ignore-cache
\* entry of a re-used (not dirty) sub-tree is the zero value
Damage(r, dirty) ==
  IF ~LoseValues \/ ~r.ok THEN r
  ELSE [r EXCEPT !.icache = [k \in DOMAIN r.icache |->
          IF k[1] # <<>> /\ k[1] \notin dirty /\ SubSeq(k[1], 1, Len(k[1]) - 1) \notin dirty
          THEN [ig |-> "nom", ct |-> FALSE] ELSE r.icache[k]]]

Init == /\ disk \in Disks /\ len = 1 /\ good = TRUE
        /\ held = ColdScan(Dress(<<>>, disk), Cfg)

Step(kind, disk2) ==
  LET o == Dress(<<>>, disk) n == Dress(<<>>, disk2)
      changed == Changed(<<>>, o, n)
      extra == CASE kind = "elsewhere" -> Elsewhere [] kind = "inside" -> Inside [] OTHER -> {}
      R == changed \cup extra
      r0 == IF kind = "warm"
            THEN AScan(n, Cfg, NoBaseline, {}, held.cache, held.icache, TRUE)
            ELSE AScan(n, Cfg, held, RC(R), held.cache, held.icache, TRUE)
      r == IF kind = "warm" THEN r0 ELSE Damage(r0, DirtyClosure(R))
      cold == ColdScan(n, Cfg)
  IN /\ len < MaxLen /\ len' = len + 1 /\ disk' = disk2
     /\ held' = r
     /\ good' = /\ SameSnapshot(r, cold) /\ SameDigestCache(r, cold)
                /\ ICacheMatches(r, cold) /\ ICacheWithin(r, cold)

Next == \E kind \in Kinds : \E disk2 \in Disks : Step(kind, disk2)
Spec == Init /\ [][Next]_cvars

Inv_ChainEqualsCold == good
====
