CONSTANTS Decomp = FALSE Wide = FALSE MaxExtra = 0 Mixture = FALSE
SPECIFICATION Spec
INVARIANT Ctl_StampsIrrelevant
CHECK_DEADLOCK FALSE
