---- MODULE ScanContract_MC ----
(***************************************************************************)
(* Leg D of C12: over a bounded universe of disk facts x every              *)
(* configuration, the scan ALGORITHM (AccelScan!ColdScan, the transcription *)
(* of scan.go) computes exactly the CONTRACT (ScanContract!Observe) and its  *)
(* counters add up to the content.  One state per (tree, configuration).    *)
(***************************************************************************)
EXTENDS AccelScan

CONSTANT Deep        \* TRUE: all 24 configurations, and the second root name ranges over all leaves

AllCfgs == [sym : {"portable", "ignore", "posix"}, perm : {"portable", "manual"}, pres : BOOLEAN, decomp : BOOLEAN]
\* quick: every symlink x permissions mode on a preserving, non-decomposing filesystem, plus a
\* non-preserving, decomposing one in portable permissions mode under two symlink modes
Cfgs == IF Deep THEN AllCfgs
        ELSE {c \in AllCfgs : (c.pres /\ ~c.decomp) \/ (~c.pres /\ c.decomp /\ c.perm = "portable" /\ c.sym # "ignore")}

\* ---- archetypes (nfc: "same" | "other", resolved when placed under a name) ----
NameBase == [u8 |-> TRUE, tmp |-> FALSE, nfc |-> "same"]
FileA(m, rd) == NameBase @@ [t |-> "file", m |-> m, sz |-> 3, d |-> "d1", rd |-> rd, mt |-> "t1", ino |-> "i1"]
LinkA(tc, abs, col, rl) == NameBase @@ [t |-> "link", tg |-> "T", tl |-> 5, tc |-> tc, abs |-> abs, col |-> col, bs |-> FALSE, rl |-> rl]
BaseLeaves ==
  { FileA(493, TRUE), FileA(420, TRUE), FileA(1, TRUE), FileA(420, FALSE),
    LinkA(<<"x">>, FALSE, FALSE, TRUE), LinkA(<<"..", "x">>, FALSE, FALSE, TRUE), LinkA(<<"", "x">>, TRUE, FALSE, TRUE),
    LinkA(<<"x">>, FALSE, FALSE, FALSE), LinkA(<<"x">>, FALSE, TRUE, TRUE),
    [LinkA(<<"x">>, FALSE, FALSE, TRUE) EXCEPT !.tl = 248],
    NameBase @@ [t |-> "other", o |-> "fifo"] }
LeafVerdicts == {[ig |-> "nom", ct |-> FALSE], [ig |-> "ign", ct |-> FALSE], [ig |-> "unign", ct |-> FALSE]}
DirVerdicts == LeafVerdicts \cup {[ig |-> "nom", ct |-> TRUE], [ig |-> "ign", ct |-> TRUE]}
Plain == FileA(420, TRUE)
OddNames == { [Plain EXCEPT !.tmp = TRUE] @@ [ig |-> "nom", ct |-> FALSE],
              [Plain EXCEPT !.u8 = FALSE] @@ [ig |-> "nom", ct |-> FALSE],
              [Plain EXCEPT !.u8 = FALSE, !.tmp = TRUE] @@ [ig |-> "nom", ct |-> FALSE],
              [Plain EXCEPT !.nfc = "other"] @@ [ig |-> "nom", ct |-> FALSE],
              [Plain EXCEPT !.nfc = "other"] @@ [ig |-> "ign", ct |-> FALSE] }
Leaves == {l @@ v : l \in BaseLeaves, v \in LeafVerdicts} \cup OddNames
SmallLeaves == {Plain @@ v : v \in LeafVerdicts}

\* place an archetype under raw name n
Place(n, a) == [a EXCEPT !.nfc = IF @ = "same" THEN n ELSE "N" \o n]
               @@ (IF a.u8 THEN <<>> ELSE [segs |-> <<[ok |-> TRUE, h |-> n], [ok |-> FALSE, h |-> "ff"]>>])
DirA(v, xdev, rd, ls, c) == NameBase @@ v @@ [t |-> "dir", ino |-> "i0", xdev |-> xdev, rd |-> rd, ls |-> ls, c |-> c]
OneKid(S) == {<<>>} \cup {[n \in {"a"} |-> Place("a", x)] : x \in S}
Dirs2 == {DirA(v, FALSE, TRUE, TRUE, c) : v \in DirVerdicts, c \in OneKid(SmallLeaves)}
Dirs1 == {DirA(v, FALSE, TRUE, TRUE, c) : v \in DirVerdicts, c \in OneKid(Leaves \cup Dirs2)}
         \cup {DirA(v, s[1], s[2], s[3], [n \in {"a"} |-> Place("a", Plain @@ [ig |-> "nom", ct |-> FALSE])]) :
                 v \in DirVerdicts, s \in {<<TRUE, TRUE, TRUE>>, <<FALSE, FALSE, TRUE>>, <<FALSE, TRUE, FALSE>>}}
Level1 == Leaves \cup Dirs1
SideB == IF Deep THEN Leaves ELSE {[Plain EXCEPT !.u8 = FALSE] @@ [ig |-> "nom", ct |-> FALSE]}
RootDirs == {[t |-> "dir", ino |-> "i0", xdev |-> FALSE, rd |-> TRUE, ls |-> TRUE, c |-> c] :
               c \in {<<>>} \cup {[n \in {"a"} |-> Place("a", x)] : x \in Level1}
                     \cup {[n \in {"b"} |-> Place("b", y)] : y \in SideB}
                     \cup {[n \in {"a", "b"} |-> IF n = "a" THEN Place("a", xy[1]) ELSE Place("b", xy[2])] : xy \in Level1 \X SideB}}
Roots == RootDirs \cup {[t |-> "none"], [t |-> "link"], [t |-> "other"],
                        [t |-> "file", m |-> 493, sz |-> 7, d |-> "d9", rd |-> TRUE, mt |-> "t1", ino |-> "i1"]}

VARIABLES facts, cfg
\* one state per (tree, configuration); the trees are successors of the 24 initial
\* states so that TLC's workers share the evaluation
Init == facts = [t |-> "none"] /\ cfg \in Cfgs
Next == facts.t = "none" /\ facts' \in Roots \ {[t |-> "none"]} /\ UNCHANGED cfg
Spec == Init /\ [][Next]_<<facts, cfg>>

\* the contract determines the snapshot only when keys do not collide
Determined == KeysDistinct(facts, cfg)
Inv_C12Design ==
  LET alg == ColdScan(facts, cfg) IN
  /\ Scannable(facts) <=> alg.ok                                                   \* AlgCompletes
  /\ Determined /\ Scannable(facts) =>
       /\ alg.content = Observe(facts, cfg)                                         \* AlgIsObserve
       /\ C12_CountsMatchContent(facts, cfg, alg)                                   \* CountsMatch
       /\ C12_ScanCompletes(facts, alg) /\ C12_SnapshotExact(facts, cfg, alg)       \* the trace operators hold on the model
       \* every file entry of the snapshot has a digest-cache entry and vice versa
       /\ DOMAIN alg.cache = {p \in Nodes(alg.content) : At(alg.content, p).k = "file"}
====
