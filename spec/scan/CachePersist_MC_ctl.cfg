CONSTANTS Decomp = FALSE Wide = FALSE MaxExtra = 0 Mixture = FALSE MaxEdits = 3
SPECIFICATION PSpec
INVARIANT Ctl_NoDisciplineNeeded
CHECK_DEADLOCK FALSE
