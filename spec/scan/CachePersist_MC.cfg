CONSTANTS Decomp = FALSE Wide = FALSE MaxExtra = 0 Mixture = FALSE MaxEdits = 3
SPECIFICATION PSpec
INVARIANTS Inv_WarmEqualsCold Inv_CachesHonest
CHECK_DEADLOCK FALSE
