---- MODULE WatchRecursive_MC ----
EXTENDS WatchRecursive
MCPaths == {<<"a">>, <<"a", "b">>, <<"c">>}
====
