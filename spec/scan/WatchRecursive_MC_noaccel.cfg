CONSTANTS Paths <- MCPaths AccelerationAllowed = FALSE QueueBound = 2 MaxEdits = 3 MaxFaults = 2 MaxTransitions = 1 Variant = "code"
SPECIFICATION Spec
INVARIANTS TypeOK Inv_Premise Inv_ReturnedWrong Inv_ErrorDisables Inv_TransitionCovered Inv_NoRecheckWhenOff Inv_SignalNotLost
CHECK_DEADLOCK FALSE
