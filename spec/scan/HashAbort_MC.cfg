CONSTANTS Decomp = FALSE Wide = FALSE MaxExtra = 0 Mixture = FALSE ResetBefore = TRUE
SPECIFICATION Spec
INVARIANT Inv_AbortIndependent
CHECK_DEADLOCK FALSE
