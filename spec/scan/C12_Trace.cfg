CONSTANT Want = {"C12_NoHang", "C12_ScanCompletes", "C12_SnapshotExact", "C12_CountsMatchContent", "C12_BehaviourReported", "DriverKeysDistinct", "Stats"}
SPECIFICATION TSpec
CHECK_DEADLOCK FALSE
