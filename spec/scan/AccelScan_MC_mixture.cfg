CONSTANTS Decomp = FALSE Wide = FALSE MaxExtra = 2 Mixture = TRUE
SPECIFICATION Spec
INVARIANT Inv_C13Design
CHECK_DEADLOCK FALSE
