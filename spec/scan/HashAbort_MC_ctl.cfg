CONSTANTS Decomp = FALSE Wide = FALSE MaxExtra = 0 Mixture = FALSE ResetBefore = FALSE
SPECIFICATION Spec
INVARIANT Inv_AbortIndependent
CHECK_DEADLOCK FALSE
