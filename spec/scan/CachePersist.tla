---- MODULE CachePersist ----
(***************************************************************************)
(* Growth beyond C12/C13: the life cycle of the digest cache of the local   *)
(* endpoint (endpoint.go: NewEndpoint loads it, scan() replaces it and      *)
(* signals saveCache, saveCache writes it atomically at most once per       *)
(* interval and only if it changed; Shutdown does not write).  The scan     *)
(* itself is AccelScan!AScan; this module adds the state around it:         *)
(*   mem   the endpoint's in-memory cache / ignore cache (snapshot = none    *)
(*         after a restart, so the first scan of an incarnation is a full    *)
(*         warm scan with whatever cache was loaded)                         *)
(*   file  the persisted cache ("none": missing or unreadable -> empty)      *)
(* Actions: Edit (the disk changes, also while no endpoint runs), Scan       *)
(* (warm full scan), SaveCache (saveCache's body; atomic replacement, so a   *)
(* crash leaves the old or the new file - C27's subject), SkipSave (interval *)
(* not elapsed), LoseFile, Restart.                                          *)
(* Property: however old the loaded cache is, a warm scan equals a cold scan *)
(* provided stamps tell content over the whole history (C13's clause), and   *)
(* every cache entry in memory or on file is honest: it pairs a stamp with   *)
(* the digest some version of that path really had.                          *)
(***************************************************************************)
EXTENDS AccelScan_MC

CONSTANT MaxEdits

PShapes == {s \in RootShapes : "b" \notin DOMAIN s.c}     \* the `a` sub-tree is where files live

VARIABLES disk, mem, file, pendingSave, lastSaved, hist, scanGood, nedits
pvars == <<disk, mem, file, pendingSave, lastSaved, hist, scanGood, nedits>>

\* (path, stamp, digest) of every file of a dressed disk
RECURSIVE Triples(_, _)
Triples(path, n) ==
  IF n.t = "file" THEN {<<path, <<n.mt, n.sz, n.ino>>, n.d>>}
  ELSE IF n.t = "dir" THEN UNION {Triples(Append(path, k), n.c[k]) : k \in DOMAIN n.c}
  ELSE {}
Dr(s) == Dress(<<>>, s)
\* every content change altered the stamp, over the whole history
Disciplined == \A x, y \in hist : x[1] = y[1] /\ x[2] = y[2] => x[3] = y[3]
Honest(cache) == \A p \in DOMAIN cache :
   <<p, <<cache[p].mt, cache[p].sz, cache[p].ino>>, cache[p].d>> \in hist
EmptyMem == [cache |-> <<>>, icache |-> <<>>]
None == [has |-> FALSE, cache |-> <<>>]          \* no file / nothing saved yet
Some(c) == [has |-> TRUE, cache |-> c]

PInit == /\ disk \in PShapes /\ mem = EmptyMem /\ file = None /\ pendingSave = FALSE /\ lastSaved = None
         /\ hist = Triples(<<>>, Dr(disk)) /\ scanGood = TRUE /\ nedits = 0
         /\ old = 0 /\ new = 0          \* AccelScan_MC's own variables are not used here

Edit == /\ nedits < MaxEdits /\ nedits' = nedits + 1
        /\ disk' \in PShapes \ {disk}
        /\ hist' = hist \cup Triples(<<>>, Dr(disk'))
        /\ UNCHANGED <<mem, file, pendingSave, lastSaved, scanGood>>

Scan == LET r == AScan(Dr(disk), Cfg, NoBaseline, {}, mem.cache, mem.icache, TRUE)
            cold == ColdScan(Dr(disk), Cfg)
        IN /\ mem' = [cache |-> r.cache, icache |-> r.icache]
           /\ pendingSave' = TRUE
           /\ scanGood' = (Disciplined => SameSnapshot(r, cold) /\ SameDigestCache(r, cold))
           /\ UNCHANGED <<disk, file, lastSaved, hist, nedits>>

SaveCache == /\ pendingSave /\ Some(mem.cache) # lastSaved
             /\ file' = Some(mem.cache) /\ lastSaved' = Some(mem.cache) /\ pendingSave' = FALSE
             /\ UNCHANGED <<disk, mem, hist, scanGood, nedits>>
SkipSave == /\ pendingSave /\ pendingSave' = FALSE        \* minimum save interval not elapsed, or nothing new
            /\ UNCHANGED <<disk, mem, file, lastSaved, hist, scanGood, nedits>>
LoseFile == /\ file.has /\ file' = None
            /\ UNCHANGED <<disk, mem, pendingSave, lastSaved, hist, scanGood, nedits>>
Restart == /\ mem' = [cache |-> file.cache, icache |-> <<>>]
           /\ pendingSave' = FALSE /\ lastSaved' = None
           /\ UNCHANGED <<disk, file, hist, scanGood, nedits>>

PNext == (Edit \/ Scan \/ SaveCache \/ SkipSave \/ LoseFile \/ Restart) /\ UNCHANGED <<old, new>>
PSpec == PInit /\ [][PNext]_<<pvars, old, new>>

Inv_WarmEqualsCold == scanGood
Inv_CachesHonest == Honest(mem.cache) /\ Honest(file.cache)
\* control (must be violated): without the stamp clause a reloaded cache can be wrong
Ctl_NoDisciplineNeeded ==
  LET r == AScan(Dr(disk), Cfg, NoBaseline, {}, mem.cache, mem.icache, TRUE) IN SameSnapshot(r, ColdScan(Dr(disk), Cfg))
====
