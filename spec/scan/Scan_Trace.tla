---- MODULE Scan_Trace ----
(***************************************************************************)
(* Trace validation for the scan family.  Every record of trace.ndjson is   *)
(* one independent case: what the real core.Scan returned next to the disk  *)
(* facts an independent walker read (ev "Scan", C12), or a baseline scan,   *)
(* the facts before and after a sequence of edits, the re-check paths, and  *)
(* the real accelerated and cold scans of the edited disk (ev "Accel", C13).*)
(* Both properties are exactness statements, so equality is the verdict:    *)
(* C12 - snapshot = Observe(facts, cfg); C13 - accelerated = cold whenever   *)
(* the statement's precondition (evaluated here, from the walker's facts)   *)
(* holds.  Agreement of the real accelerated scan with the transcribed       *)
(* algorithm (AccelScan!AScan) is reported as a counter only.               *)
(***************************************************************************)
EXTENDS AccelScan, TraceKit

CONSTANT Want

VARIABLES l, fails, judged, unjudged, drift, weak, weakdiff, wr, done
tvars == <<l, fails, judged, unjudged, drift, weak, weakdiff, wr, done>>

\* ---- C12 -------------------------------------------------------------------
\* the contract determines the snapshot only when distinct names of a directory map to
\* distinct keys; the driver avoids collisions (DriverKeysDistinct reports it if it did not)
ScanFails(i, r) ==
  LET det == KeysDistinct(r.facts, r.cfg) IN
     Chk(Want, i, "C12_NoHang", ~r.scan.hung)
  \o Chk(Want, i, "C12_ScanCompletes", C12_ScanCompletes(r.facts, r.scan))
  \o Chk(Want, i, "C12_SnapshotExact", det => C12_SnapshotExact(r.facts, r.cfg, r.scan))
  \o Chk(Want, i, "C12_CountsMatchContent", det => C12_CountsMatchContent(r.facts, r.cfg, r.scan))
  \o Chk(Want, i, "C12_BehaviourReported", C12_BehaviourReported(r.cfg, r.scan))
  \o Chk(Want, i, "DriverKeysDistinct", det)

\* ---- C13 -------------------------------------------------------------------
\* recorded caches are sequences of rows; the algorithm wants functions
CacheFn(rows) == [p \in {rows[i].path : i \in DOMAIN rows} |->
                    LET e == rows[CHOOSE i \in DOMAIN rows : rows[i].path = p]
                    IN [m |-> e.m, mt |-> e.mt, sz |-> e.sz, ino |-> e.ino, d |-> e.d]]
ICacheFn(rows) == [k \in {<<rows[i].path, rows[i].dir>> : i \in DOMAIN rows} |->
                    LET e == rows[CHOOSE i \in DOMAIN rows : <<rows[i].path, rows[i].dir>> = k]
                    IN [ig |-> e.ig, ct |-> e.ct]]
Norm(s) == IF s.ok THEN [s EXCEPT !.cache = CacheFn(s.cache), !.icache = ICacheFn(s.icache)] ELSE [ok |-> FALSE]

\* the node recorded under a KEY path (keys are recomposed names on a decomposing filesystem)
NodeAt(facts, path, cfg) ==
  LET RECURSIVE Go(_, _)
      Go(n, p) == IF p = <<>> THEN n
                  ELSE IF n.t # "dir" THEN Absent
                  ELSE LET hits == {m \in DOMAIN n.c : n.c[m].u8 /\ Key(m, n.c[m], cfg) = Head(p)} IN
                       IF hits = {} THEN Absent ELSE Go(n.c[CHOOSE m \in hits : TRUE], Tail(p))
  IN Go(facts, path)

\* the baseline and its digest cache describe the old disk
\* (a warm full scan - base.ok = FALSE - brings only the caches)
BaselineFaithful(old, cfg, base) ==
  /\ Scannable(old) /\ KeysDistinct(old, cfg)
  /\ base.ok => Shape(base.content) = Observe(old, cfg)
  /\ \A p \in DOMAIN base.cache :
       LET n == NodeAt(old, p, cfg) c == base.cache[p] IN
       n.t = "file" /\ n.d = c.d /\ n.mt = c.mt /\ n.sz = c.sz /\ n.ino = c.ino /\ n.m = c.m

Recheck(r) == {r.recheck[i] : i \in DOMAIN r.recheck}                                  \* as reported (on-disk form)
RecheckRC(r) == {[raw |-> r.recheck[i], nfc |-> r.recheck_nfc[i]] : i \in DOMAIN r.recheck}   \* with the NFC form of each

\* the precondition of the statement, evaluated on walker facts
Reported(r) == Changed(<<>>, r.old, r.new) \subseteq Recheck(r)
\* what both reporting disciplines share
Common(r, base) ==
  /\ BaselineFaithful(r.old, r.cfg, base)
  /\ KeysDistinct(r.new, r.cfg)
  /\ StampsTellContent(r.old, r.new)

AccelFails(i, r, acc, cold, pre) ==
       Chk(Want, i, "C13_NoHang", ~r.accel.hung /\ ~r.cold.hung)
    \o Chk(Want, i, "C13_AccelEqualsFull", pre => SameSnapshot(acc, cold))
    \o Chk(Want, i, "C13_DigestCacheEqualsFull", pre => SameDigestCache(acc, cold))
    \o Chk(Want, i, "C13_IgnoreCacheWithinFull", pre => ICacheWithin(acc, cold))
    \o Chk(Want, i, "C13_IgnoreCacheMatchesCold", pre => ICacheMatches(acc, cold))
    \o Chk(Want, i, "C13_AccelDescribesDisk", pre => C12_SnapshotExact(r.new, r.cfg, acc) /\ C12_CountsMatchContent(r.new, r.cfg, acc))

\* conformance of the transcription: the model's accelerated scan of the recorded inputs = the real one
ModelAgrees(r, base, acc) ==
  LET m == AScan(r.new, r.cfg, base, RecheckRC(r), base.cache, base.icache, TRUE)
  IN /\ m.ok = acc.ok
     /\ m.ok => /\ Shape(m.content) = Shape(acc.content)
                /\ m.dirs = acc.dirs /\ m.files = acc.files /\ m.links = acc.links /\ m.bytes = acc.bytes
                /\ m.cache = acc.cache /\ m.icache = acc.icache

\* ---- growth: the real local endpoint in recursive-watch mode and across restarts ----
\* Record "WScan": one Scan of the endpoint.  hook = what the endpoint handed to core.Scan (observed through
\* verifScanInputs: baseline given?, acceleration flag; base = that baseline and digest cache; recheck = those
\* re-check paths), old = the disk the baseline was taken from, new = the disk now, hist = every disk state of the
\* case (a persisted or inherited digest cache may describe any of them), accel = the snapshot the endpoint
\* returned, cold = the harness's cold core.Scan of the same disk, events = the paths the plugged-in watcher
\* delivered (and the endpoint finished handling) since the last accelerated or baseline scan.
\* Verdicts are C13's: whenever its premise holds on the walker's facts, the endpoint's scan equals the cold one.
NormBase(b) == IF b.ok THEN Norm(b)
               ELSE [ok |-> FALSE, cache |-> CacheFn(b.cache), icache |-> IF Has(b, "icache") THEN ICacheFn(b.icache) ELSE <<>>]
CacheHonest(r, cache) ==
  \A p \in DOMAIN cache : \E j \in DOMAIN r.hist :
     LET n == NodeAt(r.hist[j], p, r.cfg) c == cache[p] IN
     n.t = "file" /\ n.d = c.d /\ n.mt = c.mt /\ n.sz = c.sz /\ n.ino = c.ino /\ n.m = c.m
StampsThroughout(r) == \A j \in DOMAIN r.hist : StampsTellContent(r.hist[j], r.new)
WCommon(r, base) ==
  /\ ~r.tainted /\ KeysDistinct(r.new, r.cfg)
  /\ CacheHonest(r, base.cache) /\ StampsThroughout(r)
  /\ r.hook.baseline => /\ base.ok /\ Scannable(r.old) /\ KeysDistinct(r.old, r.cfg)
                        /\ Shape(base.content) = Observe(r.old, r.cfg)
WScanFails(i, r, acc, cold, pre) ==
       Chk(Want, i, "C13_NoHang", ~r.cold.hung)
    \o Chk(Want, i, "C13_AccelEqualsFull", pre => SameSnapshot(acc, cold))
    \o Chk(Want, i, "C13_AccelDescribesDisk", pre => C12_SnapshotExact(r.new, r.cfg, acc) /\ C12_CountsMatchContent(r.new, r.cfg, acc))
WModelAgrees(r, base, acc) ==
  LET m == AScan(r.new, r.cfg, IF r.hook.baseline THEN base ELSE NoBaseline, RecheckRC(r), base.cache, <<>>, TRUE)
  IN /\ m.ok = acc.ok
     /\ m.ok => /\ Shape(m.content) = Shape(acc.content)
                /\ m.dirs = acc.dirs /\ m.files = acc.files /\ m.links = acc.links /\ m.bytes = acc.bytes
\* ---- a scan abandoned part-way, then the retry with the same hasher (and baseline, caches, re-check set) ----
\* Records carrying "aborted" are such retries; they are judged like any other record (the retry's digests must
\* not depend on the abandoned attempt).  What the abandoned attempt itself reported is a conformance counter:
\* a cancellation fails the scan, a read error or size mismatch makes exactly that file a problem (AccelScan!AFile).
AbortAsModelled(r) ==
  Has(r, "aborted") =>
    /\ r.aborted.fired
    /\ (r.aborted.kind = "cancel" => ~r.aborted.ok)
    /\ (r.aborted.kind # "cancel" => r.aborted.ok /\ r.aborted.problem # "")
Wr0 == [retries |-> 0, abort_drift |-> 0, scans |-> 0, accelerated |-> 0, judged |-> 0, weak |-> 0, weakdiff |-> 0, model_drift |-> 0,
        recheck_drift |-> 0, disable_drift |-> 0, mode_drift |-> 0, warm |-> 0, warm_persisted_same |-> 0]
B(x) == IF x THEN 1 ELSE 0

TInit == l = 1 /\ fails = <<>> /\ judged = 0 /\ unjudged = 0 /\ drift = 0 /\ weak = 0 /\ weakdiff = 0 /\ wr = Wr0 /\ done = FALSE
\* conformance of the transcription on cold scans: the model's scan of the recorded facts = the real one
ModelAgreesCold(r) ==
  LET m == ColdScan(r.facts, r.cfg) s == Norm(r.scan) IN
  /\ m.ok = s.ok
  /\ m.ok => /\ m.content = Shape(s.content)
             /\ m.dirs = s.dirs /\ m.files = s.files /\ m.links = s.links /\ m.bytes = s.bytes
             /\ m.cache = s.cache /\ m.icache = s.icache
StepScan(r) == /\ fails' = Cap(fails \o ScanFails(l, r))
               /\ judged' = judged + 1
               /\ drift' = drift + (IF "Stats" \in Want /\ ~r.scan.hung /\ ~ModelAgreesCold(r) THEN 1 ELSE 0)
               /\ wr' = [wr EXCEPT !.retries = @ + B(Has(r, "aborted")), !.abort_drift = @ + B(~AbortAsModelled(r))]
               /\ UNCHANGED <<unjudged, weak, weakdiff>>
StepAccel(r) ==
  LET base == NormBase(r.base) acc == Norm(r.accel) cold == Norm(r.cold)
      common == Common(r, base)
      changed == Changed(<<>>, r.old, r.new)
      pre == common /\ (base.ok => changed \subseteq Recheck(r))   \* the statement's precondition (a warm full scan re-checks everything)
      stats == "Stats" \in Want
      w == stats /\ common /\ ~pre /\ ParentOrSelfReported(changed, Recheck(r))
  IN /\ fails' = Cap(fails \o AccelFails(l, r, acc, cold, pre))
     /\ judged' = judged + (IF pre THEN 1 ELSE 0)
     /\ unjudged' = unjudged + (IF pre THEN 0 ELSE 1)
     /\ weak' = weak + (IF w THEN 1 ELSE 0)
     /\ weakdiff' = weakdiff + (IF w /\ ~SameSnapshot(acc, cold) THEN 1 ELSE 0)
     /\ drift' = drift + (IF stats /\ ~ModelAgrees(r, base, acc) THEN 1 ELSE 0)
     /\ wr' = [wr EXCEPT !.retries = @ + B(Has(r, "aborted")), !.abort_drift = @ + B(~AbortAsModelled(r))]
StepWScan(r) ==
  LET base == NormBase(r.base) acc == Norm(r.accel) cold == Norm(r.cold)
      common == WCommon(r, base)
      changed == Changed(<<>>, r.old, r.new)
      pre == common /\ (r.hook.baseline => changed \subseteq Recheck(r))        \* C13's premise (a full warm scan has no re-check clause)
      w == common /\ ~pre /\ ParentOrSelfReported(changed, Recheck(r))
      evs == {r.events[k] : k \in DOMAIN r.events}
  IN /\ fails' = Cap(fails \o WScanFails(l, r, acc, cold, pre))
     /\ wr' = [wr EXCEPT !.scans = @ + 1, !.accelerated = @ + B(r.hook.baseline), !.judged = @ + B(pre),
                         !.weak = @ + B(w), !.weakdiff = @ + B(w /\ ~SameSnapshot(acc, cold)),
                         !.model_drift = @ + B(~r.tainted /\ ~WModelAgrees(r, base, acc)),
                         \* WatchRecursive!RegisterEvent / Scan: the re-check set handed to an accelerated scan is exactly
                         \* what the watcher delivered since the previous one
                         !.recheck_drift = @ + B(r.hook.baseline /\ Recheck(r) # evs),
                         \* WatchRecursive!Inv_ErrorDisables: no baseline is used after a watcher error until re-baselined
                         !.disable_drift = @ + B(r.errSince /\ r.hook.baseline),
                         \* Scan: a baseline is used exactly when acceleration is on and no full scan was requested
                         !.mode_drift = @ + B(r.label # "warm-after-restart" /\ (r.hook.baseline # (r.hook.accelerate /\ ~r.full))),
                         !.warm = @ + B(r.label = "warm-after-restart"),
                         !.warm_persisted_same = @ + B(r.label = "warm-after-restart" /\ r.persisted.same)]
     /\ UNCHANGED <<judged, unjudged, drift, weak, weakdiff>>
Step == /\ l <= NRec
        /\ LET r == Trace[l] IN
           CASE r.ev = "Scan" -> StepScan(r)
             [] r.ev = "Accel" -> StepAccel(r)
             [] r.ev = "WScan" -> StepWScan(r)
             [] OTHER -> /\ fails' = Cap(Append(fails, Fail(l, "TraceAccepted")))
                         /\ UNCHANGED <<judged, unjudged, drift, weak, weakdiff, wr>>
        /\ l' = l + 1 /\ UNCHANGED done
Finish == /\ l = NRec + 1 /\ ~done
          /\ WriteResult(l - 1, fails, [stat_judged |-> judged, stat_unjudged |-> unjudged, stat_drift |-> drift,
                                        stat_weak_cases |-> weak, stat_weak_differs |-> weakdiff,
                                        stat_retries_after_abort |-> wr.retries, stat_abort_drift |-> wr.abort_drift,
                                        stat_ep_scans |-> wr.scans, stat_ep_accelerated |-> wr.accelerated,
                                        stat_ep_judged |-> wr.judged, stat_ep_weak_cases |-> wr.weak,
                                        stat_ep_weak_differs |-> wr.weakdiff, stat_ep_model_drift |-> wr.model_drift,
                                        stat_ep_recheck_drift |-> wr.recheck_drift, stat_ep_disable_drift |-> wr.disable_drift,
                                        stat_ep_mode_drift |-> wr.mode_drift, stat_ep_warm_restarts |-> wr.warm,
                                        stat_ep_warm_persisted_same |-> wr.warm_persisted_same])
          /\ done' = TRUE /\ UNCHANGED <<l, fails, judged, unjudged, drift, weak, weakdiff, wr>>
TNext == Step \/ Finish
TSpec == TInit /\ [][TNext]_tvars
====
