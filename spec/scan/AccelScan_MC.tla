---- MODULE AccelScan_MC ----
(***************************************************************************)
(* Leg D of C13: for every pair (old disk, new disk) of a bounded universe  *)
(* and every re-check set that contains the changed paths (plus optional     *)
(* extra paths), the accelerated scan of the new disk - baseline, digest     *)
(* cache and ignore cache taken from a cold scan of the old disk - equals a  *)
(* cold scan of the new disk, provided every content change altered the      *)
(* stamp.  Also checked: the weaker reporting discipline "the changed path   *)
(* or its parent directory is reported" suffices (this is what makes         *)
(* parent-level watcher events enough), with and without the Linux           *)
(* empty-baseline heuristic.                                                 *)
(* The ignore verdict is a fixed function of (path, is-directory), as for a  *)
(* real ignorer: a/..: nominal, a/b: ignored; b: a Docker-style ignored      *)
(* directory whose traversal continues (phantom), b/a un-ignored inside it,  *)
(* b/b nominal (masked).                                                     *)
(***************************************************************************)
EXTENDS AccelScan

CONSTANTS Decomp,      \* TRUE: the filesystem decomposes Unicode; name "a" is stored decomposed (its NFC form is "A")
          Wide,        \* TRUE: the larger universe
          MaxExtra,    \* number of extra re-check paths tried beyond the changed ones
          Mixture      \* TRUE: additionally every re-check set over Candidates that satisfies the weak discipline

Cfg == [sym |-> "portable", perm |-> "portable", pres |-> TRUE, decomp |-> Decomp]
NfcName(n) == IF n = "a" THEN "A" ELSE n            \* only consulted on a decomposing filesystem
NfcPath(p) == [i \in DOMAIN p |-> NfcName(p[i])]
\* re-check paths are reported in on-disk form
RC(R) == {[raw |-> p, nfc |-> NfcPath(p)] : p \in R}

Verdict(path, isDir) ==
  CASE path = <<"b">> /\ isDir -> [ig |-> "ign", ct |-> TRUE]
    [] path = <<"a", "b">> /\ ~isDir -> [ig |-> "ign", ct |-> FALSE]
    [] path = <<"b", "a">> -> [ig |-> "unign", ct |-> FALSE]
    [] OTHER -> [ig |-> "nom", ct |-> FALSE]

\* leaf shapes: files as (digest, stamp, mode); F21 has F11's stamp but other content
FileS(d, s, m) == [t |-> "file", d |-> d, mt |-> s, sz |-> 3, ino |-> "i", m |-> m, rd |-> TRUE]
F11 == FileS("d1", "s1", 420)
F22 == FileS("d2", "s2", 420)
F21 == FileS("d2", "s1", 420)
F11x == FileS("d1", "s1", 493)
LinkS(tg) == [t |-> "link", tg |-> tg, tl |-> 1, tc |-> <<tg>>, abs |-> FALSE, col |-> FALSE, bs |-> FALSE, rl |-> TRUE]
Oth == [t |-> "other", o |-> "fifo"]
DirS(c) == [t |-> "dir", ino |-> "i0", xdev |-> FALSE, rd |-> TRUE, ls |-> TRUE, c |-> c]

Leaves1 == IF Wide THEN {F11, F22, F21, F11x, LinkS("x"), LinkS("y")} ELSE {F11, F22, F21, F11x, LinkS("x")}
Leaves2 == IF Wide THEN {F11, F22, F21} ELSE {F11, F22}
LeavesB == {F11, F22}
Leaves2b == IF Wide THEN Leaves2 ELSE {F11}
DirsA == {DirS(c) : c \in {f \in PartialFns({"a", "b"}, Leaves2) : "b" \in DOMAIN f => f["b"] \in Leaves2b}}
DirsB == {DirS(c) : c \in PartialFns(IF Wide THEN {"a", "b"} ELSE {"a"}, LeavesB)}
Shapes == {DirS(c) : c \in UNION {[X -> Leaves1 \cup DirsA \cup DirsB] : X \in SUBSET {"a", "b"}}}
RootShapes == {s \in Shapes : /\ ("a" \in DOMAIN s.c => s.c["a"] \in Leaves1 \cup DirsA)
                              /\ ("b" \in DOMAIN s.c => s.c["b"] \in (IF Wide THEN {F11} ELSE {}) \cup DirsB)}

\* attach name facts and verdicts to a shape
RECURSIVE Dress(_, _)
Dress(path, s) ==
  LET nm == IF path = <<>> THEN <<>> ELSE
            [u8 |-> TRUE, tmp |-> FALSE, nfc |-> NfcName(path[Len(path)])] @@ Verdict(path, s.t = "dir")
  IN IF s.t = "dir" THEN nm @@ [s EXCEPT !.c = [n \in DOMAIN s.c |-> Dress(Append(path, n), s.c[n])]]
     ELSE nm @@ s

Candidates == IF Wide \/ Mixture THEN {<<>>, <<"a">>, <<"b">>, <<"a", "a">>, <<"a", "b">>, <<"b", "a">>, <<"c">>, <<"a", "c", "d">>}
              ELSE {<<"a">>, <<"a", "a">>, <<"b", "a">>, <<"a", "c", "d">>}

VARIABLES old, new
Init == old \in RootShapes /\ new = [t |-> "none"]
Next == new.t = "none" /\ new' \in RootShapes /\ UNCHANGED old
Spec == Init /\ [][Next]_<<old, new>>

Extras == {X \in SUBSET Candidates : Cardinality(X) <= MaxExtra}

Inv_C13Design ==
  new.t # "none" =>
  LET o == Dress(<<>>, old) n == Dress(<<>>, new)
      base == ColdScan(o, Cfg)
      cold == ColdScan(n, Cfg)
      ch == Changed(<<>>, o, n)
      disciplined == StampsTellContent(o, n)
      Acc(R, linux) == AScan(n, Cfg, base, RC(R), base.cache, base.icache, linux)
      Good(a) == SameSnapshot(a, cold) /\ SameDigestCache(a, cold) /\ ICacheWithin(a, cold)
  IN /\ cold.content = Observe(n, Cfg)
     \* the statement: every changed path reported (plus extras), stamps tell content
     /\ disciplined => /\ \A X \in Extras : Good(Acc(ch \cup X, TRUE))
                       /\ \A X \in (IF Wide THEN Extras ELSE {{}}) : Good(Acc(ch \cup X, FALSE))
     \* the weaker discipline: parents instead of the paths themselves
     /\ disciplined => \A linux \in BOOLEAN :
          Good(Acc({IF p = <<>> THEN p ELSE SubSeq(p, 1, Len(p) - 1) : p \in ch}, linux))
     \* and any mixture of the two
     /\ disciplined /\ Mixture => \A R \in SUBSET Candidates : ParentOrSelfReported(ch, R) => Good(Acc(R, TRUE))

\* Development-time controls (must be VIOLATED; run by hand, see docs/scan.md):
\* acceleration is not trivially equal to a cold scan
Ctl_NoPreconditionNeeded ==
  new.t # "none" =>
  LET o == Dress(<<>>, old) n == Dress(<<>>, new) base == ColdScan(o, Cfg) IN
  SameSnapshot(AScan(n, Cfg, base, RC({<<"c">>}), base.cache, base.icache, TRUE), ColdScan(n, Cfg))
Ctl_StampsIrrelevant ==
  new.t # "none" =>
  LET o == Dress(<<>>, old) n == Dress(<<>>, new) base == ColdScan(o, Cfg) IN
  SameSnapshot(AScan(n, Cfg, base, RC(Changed(<<>>, o, n) \cup {<<"c">>}), base.cache, base.icache, TRUE), ColdScan(n, Cfg))
====
