CONSTANTS MaxLen = 4 LoseValues = TRUE
SPECIFICATION Spec
INVARIANT Inv_ChainEqualsCold
CHECK_DEADLOCK FALSE
