---- MODULE AccelScan ----
(***************************************************************************)
(* C13 - the scan algorithm of pkg/synchronization/core/scan.go transcribed *)
(* with its acceleration inputs: baseline snapshot, re-check paths, digest  *)
(* cache and ignore cache.  Operators are named after the code:             *)
(*   Scan       -> AScan       (baseline validity, early return, dirty-path *)
(*                              closure over ancestors)                     *)
(*   directory  -> ADir/AKids  (temporary filter, UTF-8 check, kind, ignore *)
(*                              cache, per-directory baseline lookup, the   *)
(*                              Linux empty-baseline heuristic, reuse with  *)
(*                              cache propagation = Propagate)              *)
(*   file       -> AFile       (digest reuse keyed on mtime/size/file ID,   *)
(*                              cache-entry reuse additionally on mode)     *)
(*   symbolicLink -> ALink                                                  *)
(* The scanner's mutable fields (four counters, new digest cache, new       *)
(* ignore cache) are threaded through as the record `st`.                   *)
(* Disk facts and configuration are those of ScanContract.  With no         *)
(* baseline the algorithm must compute exactly Observe (C12's design leg);  *)
(* with one it must compute what it computes without (C13).                 *)
(***************************************************************************)
EXTENDS ScanContract

Put(f, k, v) == (k :> v) @@ f
St0 == [dirs |-> 0, files |-> 0, links |-> 0, bytes |-> 0, cache |-> <<>>, icache |-> <<>>, err |-> FALSE,
        hasher |-> <<>>, cancelled |-> FALSE]

\* ---- the long-lived hasher ---------------------------------------------------
\* The hash.Hash handed to Scan outlives the scan (an endpoint uses one hasher for all its scans, also for the retry
\* of a scan that failed or was cancelled part-way).  Its state is the sequence of chunks written since the last
\* Reset.  A file's content is Chunks(node); Sum yields the file's digest exactly when the state is that sequence.
\* Hashing one file is  begin (Reset) -> chunk -> [abort?] -> chunk -> Sum;  an abort between the chunks is a
\* cancellation (the scan fails), a read error or a size mismatch (the file becomes a problem, the scan goes on).
Chunks(node) == <<node.d \o "/1", node.d \o "/2">>
SumOf(h, node) == IF h = Chunks(node) THEN node.d ELSE "wrong:" \o node.d
NoAbort == [path |-> <<"-no-abort-">>, kind |-> "none"]
Res(e, st) == [e |-> e, st |-> st]

\* env = [cfg, dirty (set of paths), ocache, oicache, linux, abort ([path, kind]: where hashing is abandoned),
\*        resetBefore (TRUE = the code: Reset before the copy; FALSE = the control variant "Reset after Sum")]
\* digest-cache entries: [m, mt, sz, ino, d]   (only regular files are ever cached, so the
\* code's comparison of the type bits is vacuous and is not represented)
CacheEntryOf(node, digest) == [m |-> node.m, mt |-> node.mt, sz |-> node.sz, ino |-> node.ino, d |-> digest]

\* scanner.file
AFile(node, path, env, st) ==
  LET hit == path \in DOMAIN env.ocache
      cached == env.ocache[path]
      cacheContentMatch == hit /\ node.mt = cached.mt /\ node.sz = cached.sz /\ node.ino = cached.ino
      cacheEntryReusable == cacheContentMatch /\ node.m = cached.m
      h0 == IF env.resetBefore THEN <<>> ELSE st.hasher               \* s.hasher.Reset()
      h1 == Append(h0, Chunks(node)[1])                               \* io.CopyBuffer: the first writes
      h2 == Append(h1, Chunks(node)[2])                               \* ... the rest
  IN IF ~cacheContentMatch /\ ~node.rd THEN Res(Prob, st)          \* the file has to be opened and cannot be
     ELSE IF ~cacheContentMatch /\ env.abort.path = path
     THEN (IF env.abort.kind = "cancel"
           THEN Res(Prob, [st EXCEPT !.hasher = h1, !.cancelled = TRUE, !.err = TRUE])   \* ErrWritePreempted -> ErrScanCancelled
           ELSE Res(Prob, [st EXCEPT !.hasher = h1]))                                   \* read error / hashed size mismatch
     ELSE LET digest == IF cacheContentMatch THEN cached.d ELSE SumOf(h2, node)        \* s.hasher.Sum(nil)
              entry == IF cacheEntryReusable THEN cached ELSE CacheEntryOf(node, digest)
              hEnd == IF cacheContentMatch THEN st.hasher ELSE IF env.resetBefore THEN h2 ELSE <<>>
          IN Res(F(digest, Executable(node, env.cfg)),
                 [st EXCEPT !.files = @ + 1, !.bytes = @ + node.sz, !.cache = Put(@, path, entry), !.hasher = hEnd])

\* scanner.symbolicLink + the symbolic link mode switch of scanner.directory
ALink(node, depth, env, st) ==
  LET e == ObsLink(node, depth, env.cfg) IN
  Res(e, IF e.k = "link" THEN [st EXCEPT !.links = @ + 1] ELSE st)

\* the walk over a re-used baseline directory: counts and cache propagation
RECURSIVE Propagate(_, _, _, _)
RECURSIVE PropagateKids(_, _, _, _, _)
PropagateKids(e, S, path, env, st) ==
  IF S = {} THEN st
  ELSE LET n == CHOOSE x \in S : TRUE IN
       PropagateKids(e, S \ {n}, path, env, Propagate(e.c[n], Append(path, n), env, st))
Propagate(e, path, env, st) ==
  LET dirKind == e.k \in {"dir", "phantom"}
      st1 == IF dirKind THEN [st EXCEPT !.dirs = @ + 1]
             ELSE IF e.k = "file" THEN [st EXCEPT !.files = @ + 1]
             ELSE IF e.k = "link" THEN [st EXCEPT !.links = @ + 1]
             ELSE st
      ik == <<path, dirKind>>
      st2 == IF e.k \notin {"untracked", "problem"} /\ ik \in DOMAIN env.oicache
             THEN [st1 EXCEPT !.icache = Put(@, ik, env.oicache[ik])] ELSE st1
      st3 == IF e.k # "file" THEN st2
             ELSE IF path \in DOMAIN env.ocache
                  THEN [st2 EXCEPT !.cache = Put(@, path, env.ocache[path]), !.bytes = @ + env.ocache[path].sz]
                  ELSE [st2 EXCEPT !.err = TRUE]        \* "old cache entries don't correspond to baseline"
  IN IF dirKind THEN PropagateKids(e, DOMAIN e.c, path, env, st3) ELSE st3

RECURSIVE ADir(_, _, _, _, _, _)
RECURSIVE AKids(_, _, _, _, _, _, _, _)

\* one iteration of the loop over directoryContents; acc = the contents map so far
AKid(node, n, path, base, mask, env, st, acc) ==
  LET ch == node.c[n] IN
  IF ch.tmp THEN [c |-> acc, st |-> st]
  ELSE IF ~ch.u8 THEN [c |-> Put(acc, EscapedKey(ch), IF mask THEN U ELSE Prob), st |-> st]
  ELSE
  LET key == Key(n, ch, env.cfg)
      cpath == Append(path, key)
  IN
  IF ch.t = "other" THEN [c |-> Put(acc, key, U), st |-> st]
  ELSE
  LET isDir == ch.t = "dir"
      ik == <<cpath, isDir>>
      beh == IF ik \in DOMAIN env.oicache THEN env.oicache[ik] ELSE [ig |-> ch.ig, ct |-> ch.ct]   \* ignorer.Ignore
      st1 == [st EXCEPT !.icache = Put(@, ik, beh)]
      g == Ignoring(beh, mask)
  IN
  IF g = "skip" THEN [c |-> Put(acc, key, U), st |-> st1]
  ELSE
  LET directoryBaseline == IF isDir /\ base # Nil /\ key \in DOMAIN base.c /\ base.c[key].k = "dir"
                           THEN base.c[key] ELSE Nil
      contentDirty == directoryBaseline # Nil /\
                        (cpath \in env.dirty \/ (env.linux /\ DOMAIN directoryBaseline.c = {}))
  IN
  IF directoryBaseline # Nil /\ ~contentDirty
  THEN [c |-> Put(acc, key, directoryBaseline), st |-> Propagate(directoryBaseline, cpath, env, st1)]
  ELSE LET r == CASE ch.t = "file" -> AFile(ch, cpath, env, st1)
                  [] ch.t = "link" -> ALink(ch, Len(path), env, st1)
                  [] ch.t = "dir"  -> ADir(ch, cpath, directoryBaseline, g = "masked", env, st1)
       IN [c |-> Put(acc, key, r.e), st |-> r.st]

AKids(node, S, path, base, mask, env, st, acc) ==
  IF S = {} \/ st.cancelled THEN [c |-> acc, st |-> st]          \* a cancelled scan returns at once
  ELSE LET n == CHOOSE x \in S : TRUE
           r == AKid(node, n, path, base, mask, env, st, acc)
       IN AKids(node, S \ {n}, path, base, mask, env, r.st, r.c)

\* scanner.directory
ADir(node, path, base, mask, env, st) ==
  IF node.xdev THEN Res(Prob, st)                 \* "scan crossed filesystem boundary"
  ELSE IF ~node.rd THEN Res(Prob, st)             \* "unable to open directory"
  ELSE IF ~node.ls THEN Res(Prob, st)             \* "unable to read directory contents"
  ELSE LET r == AKids(node, DOMAIN node.c, path, base, mask, env, st, <<>>) IN
       Res([k |-> IF mask THEN "phantom" ELSE "dir", c |-> r.c], [r.st EXCEPT !.dirs = @ + 1])

\* Re-check paths arrive as the watcher reports them, i.e. in on-disk form: rc = [raw |-> path, nfc |-> its NFC
\* form].  On a filesystem that decomposes Unicode the scan compares them with RECOMPOSED content paths, so it
\* recomposes them first (repaired behaviour, see docs/scan.md "Defects found"; before the repair the raw form
\* was used and a change below a directory with a decomposable name was missed).
ScanPaths(recheck, cfg) == {IF cfg.decomp THEN rc.nfc ELSE rc.raw : rc \in recheck}
\* dirty-path closure: every re-check path and every parent component of one
DirtyClosure(paths) == UNION {ProperPrefixes(p) \cup {p} : p \in paths}

NoBaseline == [ok |-> FALSE]
Result(content, st, cfg) ==
  [ok |-> ~st.err, content |-> content, dirs |-> st.dirs, files |-> st.files, links |-> st.links, bytes |-> st.bytes,
   pres |-> cfg.pres, decomp |-> cfg.decomp, cache |-> st.cache, icache |-> st.icache, hasher |-> st.hasher]

RootKind(e) == IF e.k = "dir" THEN "dir" ELSE IF e.k = "file" THEN "file" ELSE "x"

\* Scan.  baseline: a previous Result (or NoBaseline), ocache/oicache the caches that came with it,
\* recheck: a set of [raw, nfc] re-check paths, hasher0: the state the caller's hasher is in, abort: where (if
\* anywhere) hashing is abandoned during this scan.
AScanH(facts, cfg, baseline, recheck, ocache, oicache, linux, hasher0, abort, resetBefore) ==
  IF facts.t = "none" THEN Result(Nil, [St0 EXCEPT !.hasher = hasher0], [pres |-> FALSE, decomp |-> FALSE])   \* no root: empty snapshot
  ELSE IF ~Scannable(facts) THEN [ok |-> FALSE, hasher |-> hasher0]                 \* "unable to open synchronization root"
  ELSE
  LET baselineValid == /\ baseline.ok /\ baseline.content # Nil
                       /\ RootKind(baseline.content) = facts.t
                       /\ baseline.pres = cfg.pres /\ baseline.decomp = cfg.decomp
  IN
  IF baselineValid /\ recheck = {} THEN [hasher |-> hasher0] @@ [baseline EXCEPT !.cache = ocache, !.icache = oicache]
  ELSE
  LET env == [cfg |-> cfg, dirty |-> IF baselineValid THEN DirtyClosure(ScanPaths(recheck, cfg)) ELSE {},
              ocache |-> ocache, oicache |-> oicache, linux |-> linux, abort |-> abort, resetBefore |-> resetBefore]
      st0 == [St0 EXCEPT !.hasher = hasher0]
      r == IF facts.t = "dir"
           THEN ADir(facts, <<>>, IF baselineValid THEN baseline.content ELSE Nil, FALSE, env, st0)
           ELSE AFile(facts, <<>>, env, st0)
  IN Result(r.e, r.st, cfg)

\* a scan that is not disturbed, with a hasher in its initial state
AScan(facts, cfg, baseline, recheck, ocache, oicache, linux) ==
  AScanH(facts, cfg, baseline, recheck, ocache, oicache, linux, <<>>, NoAbort, TRUE)

ColdScan(facts, cfg) == AScan(facts, cfg, NoBaseline, {}, <<>>, <<>>, TRUE)

\* ---- what changed between two disks ----------------------------------------
Absent == [t |-> "none"]
Kid(node, n) == IF n \in DOMAIN node.c THEN node.c[n] ELSE Absent
RECURSIVE AllPaths(_, _)
AllPaths(path, node) ==
  IF node.t = "none" THEN {}
  ELSE {path} \cup (IF node.t = "dir" THEN UNION {AllPaths(Append(path, n), node.c[n]) : n \in DOMAIN node.c} ELSE {})

Modified(a, b) ==      \* same type on both sides
  CASE a.t = "file"  -> a.d # b.d \/ a.mt # b.mt \/ a.sz # b.sz \/ a.ino # b.ino \/ a.m # b.m
    [] a.t = "link"  -> a.tg # b.tg
    [] a.t = "dir"   -> a.ino # b.ino
    [] a.t = "other" -> a.o # b.o

\* every created, deleted or modified path
RECURSIVE Changed(_, _, _)
Changed(path, a, b) ==
  IF a.t # b.t THEN AllPaths(path, a) \cup AllPaths(path, b)
  ELSE IF a.t = "none" THEN {}
  ELSE (IF Modified(a, b) THEN {path} ELSE {})
       \cup (IF a.t = "dir"
             THEN UNION {Changed(Append(path, n), Kid(a, n), Kid(b, n)) : n \in DOMAIN a.c \cup DOMAIN b.c}
             ELSE {})

\* every content change alters the file's size, modification time or identity
\* (a change of type is a change of the path's kind and is covered by Changed)
RECURSIVE StampsTellContent(_, _)
StampsTellContent(a, b) ==
  IF a.t # b.t THEN TRUE
  ELSE IF a.t = "file" THEN (a.d # b.d => a.mt # b.mt \/ a.sz # b.sz \/ a.ino # b.ino)
  ELSE IF a.t = "dir" THEN \A n \in DOMAIN a.c \cap DOMAIN b.c : StampsTellContent(a.c[n], b.c[n])
  ELSE TRUE

\* the weaker reporting discipline that the mechanism actually needs: for every
\* changed path, the path itself or its parent directory is reported
ParentOrSelfReported(changed, recheck) ==
  \A p \in changed : p \in recheck \/ (p # <<>> /\ SubSeq(p, 1, Len(p) - 1) \in recheck)

\* ---- the property -------------------------------------------------------------
SameSnapshot(x, y) ==
  /\ x.ok = y.ok
  /\ x.ok => /\ x.content = y.content
             /\ x.dirs = y.dirs /\ x.files = y.files /\ x.links = y.links /\ x.bytes = y.bytes
             /\ x.pres = y.pres /\ x.decomp = y.decomp
SameDigestCache(x, y) == x.ok /\ y.ok => x.cache = y.cache

\* the accelerated ignore cache may lack entries of re-used sub-trees (they are
\* recomputed on demand) but never disagrees with a cold one
\* restricted to the keys a cold scan produces, the returned ignore cache has the cold scan's values (Docker-style
\* ignores put richer values there: Ignored/Nominal with traversal continuation for phantom directories, Unignored
\* entries under a mask - they must survive baseline re-use and the early return unchanged)
ICacheMatches(x, y) == x.ok /\ y.ok =>
   \A k \in DOMAIN x.icache \cap DOMAIN y.icache : x.icache[k] = y.icache[k]
ICacheWithin(x, y) == x.ok /\ y.ok =>
   \A k \in DOMAIN x.icache : k[1] = <<>> \/ (k \in DOMAIN y.icache /\ y.icache[k] = x.icache[k])
====
