CONSTANT Want = {"C13_NoHang", "C13_AccelEqualsFull", "C13_DigestCacheEqualsFull", "C13_IgnoreCacheMatchesCold", "C13_IgnoreCacheWithinFull", "C13_AccelDescribesDisk", "Stats"}
SPECIFICATION TSpec
CHECK_DEADLOCK FALSE
