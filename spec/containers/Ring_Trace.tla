---- MODULE Ring_Trace ----
(***************************************************************************)
(* C26 binding leg.  Every record of trace.ndjson is one complete case run  *)
(* on the real ring.Buffer:                                                 *)
(*   in  = [size, src, ops]   the behaviour (exported by Ring.tla for       *)
(*         src = "seq" / "cover", seeded random for src = "rand"); an       *)
(*         operation is the tuple <<op, n, data, av, ch, e, w>>;            *)
(*   res = one observation per operation, <<n, err, out, used, free,        *)
(*         size>>: what the real call returned (count, error kind, bytes    *)
(*         handed out) and Used/Free/Size observed right after it.          *)
(* The abstract bounded FIFO of RingOps is replayed along `ops` and every   *)
(* real observation is compared with the FIFO's by the same C26_* property  *)
(* operators that Ring.tla checks on the concrete model (C26 is an          *)
(* exactness property).  The concrete model is not consulted here.          *)
(***************************************************************************)
EXTENDS RingOps, TraceKit

CONSTANT Want

VARIABLES l, fails, nops, done
tvars == <<l, fails, nops, done>>

WellFormed(r) ==
  /\ Has(r, "ev") /\ r.ev = "Ring" /\ Has(r, "in") /\ Has(r, "res")
  /\ Has(r.in, "size") /\ Has(r.in, "ops") /\ Has(r.in, "src")
  /\ Len(r.res) = Len(r.in.ops)
  /\ \A j \in 1..Len(r.res) : Len(r.res[j]) = 6 /\ Len(r.in.ops[j]) = 7

\* replay the FIFO along ops; q is the FIFO before operation j; returns, per clause, whether every
\* observation from j on matched the FIFO's
RECURSIVE Fold(_, _, _, _, _)
Fold(c, ops, res, j, q) ==
  IF j > Len(ops) THEN [bytes |-> TRUE, counts |-> TRUE, fe |-> TRUE]
  ELSE LET fa   == FApply(q, c, UnTup(ops[j]))
           want == FObs(fa, c)
           got  == ObsOfTup(res[j])
           rest == Fold(c, ops, res, j + 1, fa.q)
       IN  [bytes  |-> C26_FifoBytes(want, got) /\ rest.bytes,
            counts |-> C26_Counts(want, got) /\ rest.counts,
            fe     |-> C26_FullEmpty(want, got) /\ rest.fe]

CaseFails(i, r) ==
  IF ~WellFormed(r) THEN <<Fail(i, "C26_TraceAccepted")>>
  ELSE LET c == Max(r.in.size, 0)
           v == Fold(c, r.in.ops, r.res, 1, <<>>)
       IN    Chk(Want, i, "C26_FifoBytes", v.bytes)
          \o Chk(Want, i, "C26_Counts", v.counts)
          \o Chk(Want, i, "C26_FullEmpty", v.fe)
          \o Chk(Want, i, "C26_DriverInSpace",
                 r.in.src \in {"seq", "cover"} => \A j \in 1..Len(r.in.ops) : IsOp(c, UnTup(r.in.ops[j])))

TInit == l = 1 /\ fails = <<>> /\ nops = 0 /\ done = FALSE
Step == /\ l <= NRec
        /\ LET r == Trace[l] IN
           /\ fails' = Cap(fails \o CaseFails(l, r))
           /\ nops' = nops + (IF Has(r, "res") THEN Len(r.res) ELSE 0)
        /\ l' = l + 1 /\ UNCHANGED done
Finish == /\ l = NRec + 1 /\ ~done
          /\ WriteResult(l - 1, fails, [stat_ops |-> nops])
          /\ done' = TRUE /\ UNCHANGED <<l, fails, nops>>
TSpec == TInit /\ [][Step \/ Finish]_tvars
====
