CONSTANTS MaxSize = 3 D = 4 DP = 8 DL = 4 CutoffMax = 6 IntervalMax = 4 ClMax = 4
SPECIFICATION Spec
INVARIANTS InvContract InvOneCall Export
CHECK_DEADLOCK FALSE
