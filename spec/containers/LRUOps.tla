---- MODULE LRUOps ----
(***************************************************************************)
(* C45 -- pkg/container/lru/lru.go                                          *)
(*                                                                         *)
(*  A-operators  the ABSTRACT cache, in the textbook form of the property   *)
(*      statement: every live key carries the logical time of its last use; *)
(*      the cache holds the most recently used keys up to its capacity;     *)
(*      when an insertion overflows it, the live key with the smallest      *)
(*      last-use time leaves, and everything that leaves (overflow or       *)
(*      Remove) is reported to the eviction callback exactly once.          *)
(*      s = [live, val, used, clock]                                        *)
(*  K-operators  the CONCRETE cache as lru.go builds it: a doubly linked    *)
(*      list of elements (front = most recent) plus an index map from key   *)
(*      to list element.  k = [entries : Seq(element id), elem : id ->      *)
(*      [key, value], index : key -> id, next]                              *)
(*                                                                         *)
(* LRU.tla model-checks that K refines A; LRU_Trace.tla replays A along     *)
(* operations executed on the real lru.Cache (exactness property).          *)
(* An operation is [op, k, v] with op in Add | Get | Remove; its observable *)
(* result is [ok, v, len, ev]: Get's hit flag and value, Len() afterwards,  *)
(* and the sequence of <<key, value>> pairs the eviction callback received. *)
(* Capacity 0 means unbounded.                                              *)
(***************************************************************************)
EXTENDS Integers, Sequences, FiniteSets

LRes(ok, v, len, ev) == [ok |-> ok, v |-> v, len |-> len, ev |-> ev]

(* ------------------------------- abstract ------------------------------ *)
AInit == [live |-> {}, val |-> <<>>, used |-> <<>>, clock |-> 1]

\* the live key used least recently
Oldest(s) == CHOOSE k \in s.live : \A j \in s.live : s.used[k] <= s.used[j]

Restrict(f, S) == [x \in S |-> f[x]]
Put(f, x, y) == [z \in (DOMAIN f) \cup {x} |-> IF z = x THEN y ELSE f[z]]

AAdd(s, cap, k, v) ==
  LET s1 == [live |-> s.live \cup {k}, val |-> Put(s.val, k, v), used |-> Put(s.used, k, s.clock), clock |-> s.clock + 1]
  IN  IF k \notin s.live /\ cap # 0 /\ Cardinality(s1.live) > cap
      THEN LET o == Oldest(s1)
               keep == s1.live \ {o}
           IN  [s |-> [s1 EXCEPT !.live = keep, !.val = Restrict(s1.val, keep), !.used = Restrict(s1.used, keep)],
                r |-> LRes(FALSE, 0, Cardinality(keep), <<<<o, s1.val[o]>>>>)]
      ELSE [s |-> s1, r |-> LRes(FALSE, 0, Cardinality(s1.live), <<>>)]

AGet(s, k) ==
  IF k \in s.live
  THEN [s |-> [s EXCEPT !.used[k] = s.clock, !.clock = @ + 1], r |-> LRes(TRUE, s.val[k], Cardinality(s.live), <<>>)]
  ELSE [s |-> s, r |-> LRes(FALSE, 0, Cardinality(s.live), <<>>)]

ARemove(s, k) ==
  IF k \in s.live
  THEN LET keep == s.live \ {k}
       IN  [s |-> [s EXCEPT !.live = keep, !.val = Restrict(s.val, keep), !.used = Restrict(s.used, keep)],
            r |-> LRes(FALSE, 0, Cardinality(keep), <<<<k, s.val[k]>>>>)]
  ELSE [s |-> s, r |-> LRes(FALSE, 0, Cardinality(s.live), <<>>)]

AApply(s, cap, o) ==
  CASE o.op = "Add"    -> AAdd(s, cap, o.k, o.v)
    [] o.op = "Get"    -> AGet(s, o.k)
    [] o.op = "Remove" -> ARemove(s, o.k)

(* ------------------------------- concrete ------------------------------ *)
KInit == [entries |-> <<>>, elem |-> <<>>, index |-> <<>>, next |-> 1]

SeqWithout(q, x) == SelectSeq(q, LAMBDA y : y # x)
MoveToFront(q, e) == <<e>> \o SeqWithout(q, e)

\* func (c *Cache) removeElement(e): entries.Remove(e); delete(index, kv.key); onEvicted(kv.key, kv.value)
KRemoveElement(k, e) ==
  LET kv == k.elem[e]
  IN  [k |-> [k EXCEPT !.entries = SeqWithout(k.entries, e),
                       !.index = Restrict(k.index, (DOMAIN k.index) \ {kv.key})],
       ev |-> <<<<kv.key, kv.value>>>>]

\* func (c *Cache) Add(key, value)
KAdd(k, max, key, value) ==
  IF key \in DOMAIN k.index
  THEN LET e == k.index[key]
       IN  [k |-> [k EXCEPT !.entries = MoveToFront(k.entries, e), !.elem[e].value = value], ev |-> <<>>]
  ELSE LET e  == k.next
           k1 == [entries |-> <<e>> \o k.entries,
                  elem |-> Put(k.elem, e, [key |-> key, value |-> value]),
                  index |-> Put(k.index, key, e),
                  next |-> k.next + 1]
       IN  IF max # 0 /\ Len(k1.entries) > max
           THEN KRemoveElement(k1, k1.entries[Len(k1.entries)])       \* removeOldest: entries.Back()
           ELSE [k |-> k1, ev |-> <<>>]

\* func (c *Cache) Get(key) (value, ok)
KGet(k, key) ==
  IF key \in DOMAIN k.index
  THEN LET e == k.index[key]
       IN  [k |-> [k EXCEPT !.entries = MoveToFront(k.entries, e)], ok |-> TRUE, v |-> k.elem[e].value]
  ELSE [k |-> k, ok |-> FALSE, v |-> 0]

\* func (c *Cache) Remove(key)
KRemove(k, key) ==
  IF key \in DOMAIN k.index THEN KRemoveElement(k, k.index[key]) ELSE [k |-> k, ev |-> <<>>]

KApply(k, max, o) ==
  CASE o.op = "Add"    -> LET x == KAdd(k, max, o.k, o.v) IN [k |-> x.k, r |-> LRes(FALSE, 0, Len(x.k.entries), x.ev)]
    [] o.op = "Get"    -> LET x == KGet(k, o.k) IN [k |-> x.k, r |-> LRes(x.ok, x.v, Len(x.k.entries), <<>>)]
    [] o.op = "Remove" -> LET x == KRemove(k, o.k) IN [k |-> x.k, r |-> LRes(FALSE, 0, Len(x.k.entries), x.ev)]

(* --------------------------- refinement mapping ------------------------ *)
KeyAt(k, i) == k.elem[k.entries[i]].key
\* list + index are consistent: one element per key, index points at it
KWellFormed(k) ==
  /\ \A i, j \in 1..Len(k.entries) : i # j => k.entries[i] # k.entries[j] /\ KeyAt(k, i) # KeyAt(k, j)
  /\ DOMAIN k.index = {KeyAt(k, i) : i \in 1..Len(k.entries)}
  /\ \A i \in 1..Len(k.entries) : k.index[KeyAt(k, i)] = k.entries[i]
\* the list holds the abstract cache's live keys, most recently used first, with their values
KRefines(k, s) ==
  /\ {KeyAt(k, i) : i \in 1..Len(k.entries)} = s.live
  /\ \A i \in 1..Len(k.entries) : k.elem[k.entries[i]].value = s.val[KeyAt(k, i)]
  /\ \A i, j \in 1..Len(k.entries) : i < j => s.used[KeyAt(k, i)] > s.used[KeyAt(k, j)]

(* ------------------------------ the property --------------------------- *)
\* C45: every observation equals the abstract cache's.
C45_Holds(want, got)    == got.ok = want.ok /\ got.v = want.v /\ got.len = want.len   \* contents: lookups, values, size
C45_Evictions(want, got) == got.ev = want.ev                                         \* who leaves, when, reported once
\* stated directly on the abstract cache (checked on the model): never more than cap entries
ABounded(s, cap) == cap # 0 => Cardinality(s.live) <= cap

(* ----------------------------- the alphabet ---------------------------- *)
LOp(op, k, v) == [op |-> op, k |-> k, v |-> v]
\* wire form: an operation is <<op, k, v>>, an observation <<ok, v, len, ev>>
LTup(o) == <<o.op, o.k, o.v>>
LUnTup(t) == LOp(t[1], t[2], t[3])
LResOfTup(t) == LRes(t[1], t[2], t[3], t[4])
\* keys are interchangeable (the cache is generic in K and only compares keys), so only sequences whose
\* keys first appear in the order 1, 2, 3, ... are enumerated: mk is the largest key used so far
LOps(nkeys, mk, nxt) ==
  LET ks == 1..(IF mk + 1 < nkeys THEN mk + 1 ELSE nkeys)
  IN  {LOp("Add", k, nxt) : k \in ks} \cup {LOp("Get", k, 0) : k \in ks} \cup {LOp("Remove", k, 0) : k \in ks}

\* membership on the trace side: a canonical sequence (of wire-form operations) over nkeys keys
RECURSIVE Canonical(_, _, _, _)
Canonical(ops, j, mk, nkeys) ==
  IF j > Len(ops) THEN TRUE
  ELSE /\ ops[j][1] \in {"Add", "Get", "Remove"}
       /\ ops[j][2] \in 1..(IF mk + 1 < nkeys THEN mk + 1 ELSE nkeys)
       /\ Canonical(ops, j + 1, IF ops[j][2] > mk THEN ops[j][2] ELSE mk, nkeys)
====
