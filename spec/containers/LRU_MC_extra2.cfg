CONSTANTS Caps = {1, 2} Extra = 2 KeysU = 3 Depth = 5 DeepCaps = {1, 2}
SPECIFICATION Spec
INVARIANTS InvWellFormed InvRefines InvBounded InvHolds InvEvictions Export
CHECK_DEADLOCK FALSE
