CONSTANTS Interval = 0 NWrites = 3
SPECIFICATION Spec
INVARIANT InvSchedule
CHECK_DEADLOCK FALSE
