CONSTANTS Caps <- CoverCapsThorough Depth = 0 Mode = "cover"
SPECIFICATION Spec
VIEW View
INVARIANTS InvType InvRefines InvBytes InvCounts InvFullEmpty InvDrainedAtZero
CHECK_DEADLOCK FALSE
