CONSTANTS Caps = {0, 1, 2, 3} Extra = 1 KeysU = 3 Depth = 5 DeepCaps = {1, 2}
SPECIFICATION Spec
INVARIANTS InvWellFormed InvRefines InvBounded InvHolds InvEvictions Export
CHECK_DEADLOCK FALSE
