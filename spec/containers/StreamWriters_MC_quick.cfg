CONSTANTS MaxSize = 3 D = 3 DP = 6 DL = 3 CutoffMax = 4 IntervalMax = 3 ClMax = 3
SPECIFICATION Spec
INVARIANTS InvContract InvOneCall Export
CHECK_DEADLOCK FALSE
