---- MODULE StreamOps ----
(***************************************************************************)
(* C47 -- pkg/stream: the helper writers / closers / flushers               *)
(*                                                                         *)
(* One small state machine per helper, written after the code              *)
(* (cutoff_writer.go, hashed_writer.go, preemptable_writer.go,              *)
(* valve_writer.go, audit_writer.go, concurrent_writer.go,                  *)
(* line_processor.go, multi_closer.go, multi_flusher.go, flush_closer.go),  *)
(* and, separately, each helper's CONTRACT stated over what an outside      *)
(* observer sees of a whole run (the bytes offered to and accepted by the   *)
(* downstream writer, the counts and errors returned, the bytes digested,   *)
(* the lines delivered, the closers invoked).  StreamWriters.tla checks     *)
(* that the machines satisfy the contracts for every operation sequence of  *)
(* the bound; StreamWriters_Trace.tla evaluates the same contracts, and     *)
(* exact agreement with the machines, on runs of the real helpers.          *)
(*                                                                         *)
(* A case is [kind, n, cl] plus a sequence of operations <<op, data, a>>:   *)
(*   kind  cutoff | hashed | preempt | valve | audit | concurrent | line    *)
(*         | mcloser | mflusher | fcloser                                   *)
(*   n     cutoff: the limit N; preempt: the check interval; valve: 1 =     *)
(*         created already shut (nil writer); audit: 1 = nil auditor;       *)
(*         line: MaximumBufferSize                                          *)
(*   cl    mcloser / mflusher / fcloser: what each underlying closer or     *)
(*         flusher returns: "" (nil) or an error name                       *)
(*   op    "W" write `data`; the downstream writer, if the helper calls it  *)
(*         during this operation with p bytes, accepts min(a, p) bytes      *)
(*         (a < 0: all) and fails iff it accepted fewer than p;             *)
(*         "Cancel" close the preemption channel; "Shut" shut the valve;    *)
(*         "Close" / "Flush" on the closers / flushers.                     *)
(* An observation is [n, err, ds, x]: the returned count and error kind,    *)
(* the byte strings offered to the downstream writer during the operation   *)
(* (at most one), and the helper-specific extra: hashed -- bytes digested   *)
(* during the operation; audit -- counts the auditor received; line --      *)
(* lines delivered to the callback; mcloser / mflusher / fcloser -- indices *)
(* of the underlying objects invoked, in order.                             *)
(* Error kinds: "" nil, "err" the downstream writer's own error,            *)
(* "preempted" ErrWritePreempted, "toobig" ErrMaximumBufferSizeExceeded,    *)
(* or the name in cl.                                                       *)
(***************************************************************************)
EXTENDS Integers, Sequences, FiniteSets

SMin(a, b) == IF a < b THEN a ELSE b
STake(s, k) == SubSeq(s, 1, k)
SDrop(s, k) == SubSeq(s, k + 1, Len(s))

SObs(n, err, ds, x) == [n |-> n, err |-> err, ds |-> ds, x |-> x]

\* the scripted downstream writer: called with p bytes under response a
Accept(a, p) == IF a < 0 \/ a >= p THEN p ELSE a
DsErr(a, p)  == IF a >= 0 /\ a < p THEN "err" ELSE ""

DefaultLineMax == 65536      \* defaultLineProcessorMaximumBufferSize
NL == 10
CR == 13

(* ------------------------------ the machines --------------------------- *)
\* helper state (fields used by the helper at hand):
\*   rem cutoff remaining; cnt preemptable writeCount; cancelled; open valve; buf line fragment
SInit(cfg) == [rem |-> IF cfg.kind = "cutoff" THEN cfg.n ELSE 0, cnt |-> 0, cancelled |-> FALSE,
               open |-> ~(cfg.kind = "valve" /\ cfg.n = 1), buf |-> <<>>]

\* plain forwarding: w.writer.Write(data)
Forward(s, data, a, x) == [s |-> s, o |-> SObs(Accept(a, Len(data)), DsErr(a, Len(data)), <<data>>, x)]

\* cutoffWriter.Write
CutoffWrite(s, data, a) ==
  IF s.rem = 0 THEN [s |-> s, o |-> SObs(Len(data), "", <<>>, <<>>)]
  ELSE IF Len(data) <= s.rem
  THEN LET w == Accept(a, Len(data))
       IN  [s |-> [s EXCEPT !.rem = @ - w], o |-> SObs(w, DsErr(a, Len(data)), <<data>>, <<>>)]
  ELSE LET part == STake(data, s.rem)
           w == Accept(a, Len(part))
           e == DsErr(a, Len(part))
       IN  [s |-> [s EXCEPT !.rem = @ - w],
            o |-> IF e # "" THEN SObs(w, e, <<part>>, <<>>) ELSE SObs(Len(data), "", <<part>>, <<>>)]

\* hashedWriter.Write: n, err := writer.Write(data); hasher.Write(data[:n])
HashedWrite(s, data, a) == Forward(s, data, a, STake(data, Accept(a, Len(data))))

\* preemptableWriter.Write
PreemptWrite(s, interval, data, a) ==
  IF s.cnt = interval
  THEN IF s.cancelled THEN [s |-> s, o |-> SObs(0, "preempted", <<>>, <<>>)]
       ELSE Forward([s EXCEPT !.cnt = 0], data, a, <<>>)
  ELSE Forward([s EXCEPT !.cnt = @ + 1], data, a, <<>>)

\* ValveWriter.Write
ValveWrite(s, data, a) ==
  IF ~s.open THEN [s |-> s, o |-> SObs(Len(data), "", <<>>, <<>>)] ELSE Forward(s, data, a, <<>>)

\* auditWriter.Write (NewAuditWriter returns the writer itself for a nil auditor)
AuditWrite(s, nilAuditor, data, a) ==
  Forward(s, data, a, IF nilAuditor THEN <<>> ELSE <<Accept(a, Len(data))>>)

\* LineProcessor.Write: the loop over bytes.IndexByte(remaining, '\n')
TrimCR(line) == IF Len(line) > 0 /\ line[Len(line)] = CR THEN STake(line, Len(line) - 1) ELSE line
\* bytes.IndexByte(b, '\n') + 1, or 0
IndexNL(b) == LET S == {i \in 1..Len(b) : b[i] = NL} IN IF S = {} THEN 0 ELSE CHOOSE i \in S : \A k \in S : i <= k
RECURSIVE LineLoop(_, _)
LineLoop(remaining, lines) ==
  LET i == IndexNL(remaining)
  IN  IF i = 0 THEN [buf |-> remaining, lines |-> lines]
      ELSE LineLoop(SDrop(remaining, i), Append(lines, TrimCR(STake(remaining, i - 1))))
LineWrite(s, max, data) ==
  IF \/ max = 0 /\ Len(s.buf) + Len(data) > DefaultLineMax
     \/ max > 0 /\ Len(s.buf) + Len(data) > max
  THEN [s |-> s, o |-> SObs(0, "toobig", <<>>, <<>>)]
  ELSE LET r == LineLoop(s.buf \o data, <<>>)
       IN  [s |-> [s EXCEPT !.buf = r.buf], o |-> SObs(Len(data), "", <<>>, r.lines)]

\* multiCloser.Close: every closer is closed, the first error is kept
RECURSIVE CloseLoop(_, _, _, _)
CloseLoop(cl, i, first, called) ==
  IF i > Len(cl) THEN SObs(0, first, <<>>, called)
  ELSE CloseLoop(cl, i + 1, IF cl[i] # "" /\ first = "" THEN cl[i] ELSE first, Append(called, i))
\* multiFlusher.Flush: stops at the first error
RECURSIVE FlushLoop(_, _, _)
FlushLoop(cl, i, called) ==
  IF i > Len(cl) THEN SObs(0, "", <<>>, called)
  ELSE IF cl[i] # "" THEN SObs(0, cl[i], <<>>, Append(called, i))
  ELSE FlushLoop(cl, i + 1, Append(called, i))

\* one operation o = [op, data, a] on the helper of case cfg
SApply(cfg, s, o) ==
  CASE o.op = "W" /\ cfg.kind = "cutoff"     -> CutoffWrite(s, o.data, o.a)
    [] o.op = "W" /\ cfg.kind = "hashed"     -> HashedWrite(s, o.data, o.a)
    [] o.op = "W" /\ cfg.kind = "preempt"    -> PreemptWrite(s, cfg.n, o.data, o.a)
    [] o.op = "W" /\ cfg.kind = "valve"      -> ValveWrite(s, o.data, o.a)
    [] o.op = "W" /\ cfg.kind = "audit"      -> AuditWrite(s, cfg.n = 1, o.data, o.a)
    [] o.op = "W" /\ cfg.kind = "concurrent" -> Forward(s, o.data, o.a, <<>>)
    [] o.op = "W" /\ cfg.kind = "line"       -> LineWrite(s, cfg.n, o.data)
    [] o.op = "Cancel" -> [s |-> [s EXCEPT !.cancelled = TRUE], o |-> SObs(0, "", <<>>, <<>>)]
    [] o.op = "Shut"   -> [s |-> [s EXCEPT !.open = FALSE], o |-> SObs(0, "", <<>>, <<>>)]
    [] o.op = "Close" /\ cfg.kind = "mcloser" -> [s |-> s, o |-> CloseLoop(cfg.cl, 1, "", <<>>)]
    [] o.op = "Flush" /\ cfg.kind = "mflusher" -> [s |-> s, o |-> FlushLoop(cfg.cl, 1, <<>>)]
    [] o.op = "Close" /\ cfg.kind = "fcloser" -> [s |-> s, o |-> SObs(0, cfg.cl[1], <<>>, <<1>>)]

(* ------------------------------ the contracts -------------------------- *)
\* All contracts are predicates over a whole run: ops (sequence of [op, data, a]) and obs (the
\* observations, one per operation).  Helpers for talking about streams:
RECURSIVE Flat(_)
\* concatenation of a sequence of byte strings
Flat(ss) == IF Len(ss) = 0 THEN <<>> ELSE Head(ss) \o Flat(Tail(ss))
IsW(ops, j) == ops[j].op = "W"
\* bytes the downstream writer accepted during operation j (script applied to what it was offered)
AcceptedAt(ops, obs, j) ==
  IF Len(obs[j].ds) = 0 THEN <<>> ELSE STake(obs[j].ds[1], Accept(ops[j].a, Len(obs[j].ds[1])))
\* bytes the caller was told were written by operation j
ConsumedAt(ops, obs, j) == IF IsW(ops, j) THEN STake(ops[j].data, obs[j].n) ELSE <<>>
Accepted(ops, obs) == Flat([j \in 1..Len(ops) |-> AcceptedAt(ops, obs, j)])
Consumed(ops, obs) == Flat([j \in 1..Len(ops) |-> ConsumedAt(ops, obs, j)])
\* a write that reached the downstream writer untouched and reported exactly what it answered
PassedThrough(ops, obs, j) ==
  /\ obs[j].ds = <<ops[j].data>>
  /\ obs[j].n = Accept(ops[j].a, Len(ops[j].data)) /\ obs[j].err = DsErr(ops[j].a, Len(ops[j].data))
\* a write that was swallowed: nothing offered downstream, everything reported written
Swallowed(ops, obs, j) == obs[j].ds = <<>> /\ obs[j].n = Len(ops[j].data) /\ obs[j].err = ""
Ws(ops) == {j \in 1..Len(ops) : IsW(ops, j)}

\* cutoff: the downstream writer receives exactly the first N bytes of what the caller was told was written,
\* a write fails only with the downstream writer's error, and never more than one downstream call per write
C47_Cutoff(N, ops, obs) ==
  LET cons == Consumed(ops, obs) IN
  /\ Accepted(ops, obs) = STake(cons, SMin(N, Len(cons)))
  /\ \A j \in Ws(ops) :
       /\ Len(obs[j].ds) <= 1
       /\ obs[j].err \in {"", "err"}
       /\ obs[j].err = "" => obs[j].n = Len(ops[j].data)
       /\ obs[j].err = "err" => Len(obs[j].ds) = 1 /\ obs[j].n = Accept(ops[j].a, Len(obs[j].ds[1]))
       /\ Len(obs[j].ds) = 1 => obs[j].ds[1] = STake(ops[j].data, Len(obs[j].ds[1]))

\* hashed: the hasher digests exactly the bytes the downstream writer accepted, write by write
C47_Hashed(ops, obs) ==
  \A j \in Ws(ops) : PassedThrough(ops, obs, j) /\ obs[j].x = AcceptedAt(ops, obs, j)

\* preemptable: no write is refused before cancellation; after cancellation at most `interval` more writes
\* reach the downstream writer; a refused write offers nothing downstream; once refused, always refused
C47_Preempt(interval, ops, obs) ==
  LET cancels == {j \in 1..Len(ops) : ops[j].op = "Cancel"}
      refused == {j \in Ws(ops) : obs[j].err = "preempted"}
      after(c) == {j \in Ws(ops) : j > c /\ j \notin refused}
  IN  /\ \A j \in Ws(ops) : IF j \in refused THEN obs[j].ds = <<>> /\ obs[j].n = 0 ELSE PassedThrough(ops, obs, j)
      /\ \A j \in refused : \E c \in cancels : c < j
      /\ \A j \in refused : \A i \in Ws(ops) : i > j => i \in refused
      /\ \A c \in cancels : Cardinality(after(c)) <= interval

\* valve: open -> pass through; shut (or created shut) -> swallowed
C47_Valve(preshut, ops, obs) ==
  \A j \in Ws(ops) :
    IF preshut \/ \E i \in 1..(j - 1) : ops[i].op = "Shut" THEN Swallowed(ops, obs, j) ELSE PassedThrough(ops, obs, j)

\* audit: pass through, and the auditor hears each returned count exactly once (never, if nil)
C47_Audit(nilAuditor, ops, obs) ==
  \A j \in Ws(ops) : PassedThrough(ops, obs, j) /\ obs[j].x = (IF nilAuditor THEN <<>> ELSE <<obs[j].n>>)

\* concurrent: pass through
C47_Concurrent(ops, obs) == \A j \in Ws(ops) : PassedThrough(ops, obs, j) /\ obs[j].x = <<>>

\* line processor: the lines delivered so far are exactly the newline-terminated lines of everything
\* accepted so far, in order, each with one trailing carriage return removed; a write is refused
\* exactly when the pending fragment plus the data would exceed the limit, and then changes nothing
RECURSIVE SplitLines(_)
\* the complete lines of a byte string and its unterminated tail (definition over the whole stream)
SplitLines(b) ==
  IF \A i \in 1..Len(b) : b[i] # NL THEN [lines |-> <<>>, tail |-> b]
  ELSE LET nls == {i \in 1..Len(b) : b[i] = NL}
           i == CHOOSE i \in nls : \A k \in nls : i <= k
           rest == SplitLines(SDrop(b, i))
       IN  [lines |-> <<TrimCR(STake(b, i - 1))>> \o rest.lines, tail |-> rest.tail]
RECURSIVE InputUpTo(_, _, _)
\* input accepted by operations 1..j
InputUpTo(ops, obs, j) ==
  IF j = 0 THEN <<>> ELSE InputUpTo(ops, obs, j - 1) \o (IF IsW(ops, j) /\ obs[j].err = "" THEN ops[j].data ELSE <<>>)
C47_Line(max, ops, obs) ==
  LET limit == IF max = 0 THEN DefaultLineMax ELSE max IN
  /\ Flat([j \in 1..Len(ops) |-> obs[j].x]) = SplitLines(InputUpTo(ops, obs, Len(ops))).lines
  /\ \A j \in Ws(ops) :
       LET pending == Len(SplitLines(InputUpTo(ops, obs, j - 1)).tail) IN
       /\ obs[j].ds = <<>>
       /\ IF max >= 0 /\ pending + Len(ops[j].data) > limit
          THEN obs[j].err = "toobig" /\ obs[j].n = 0 /\ obs[j].x = <<>>
          ELSE obs[j].err = "" /\ obs[j].n = Len(ops[j].data)

\* multi-closer: every closer is closed exactly once, in the order given, and the first error is reported
C47_MultiCloser(cl, ops, obs) ==
  \A j \in 1..Len(ops) : ops[j].op = "Close" =>
    /\ obs[j].x = [i \in 1..Len(cl) |-> i]
    /\ obs[j].err = (IF \A i \in 1..Len(cl) : cl[i] = "" THEN ""
                     ELSE cl[CHOOSE i \in 1..Len(cl) : cl[i] # "" /\ \A k \in 1..(i - 1) : cl[k] = ""])
\* multi-flusher: flushes in order up to and including the first failing flusher, whose error is reported
C47_MultiFlusher(cl, ops, obs) ==
  \A j \in 1..Len(ops) : ops[j].op = "Flush" =>
    IF \A i \in 1..Len(cl) : cl[i] = "" THEN obs[j].x = [i \in 1..Len(cl) |-> i] /\ obs[j].err = ""
    ELSE LET f == CHOOSE i \in 1..Len(cl) : cl[i] # "" /\ \A k \in 1..(i - 1) : cl[k] = ""
         IN  obs[j].x = [i \in 1..f |-> i] /\ obs[j].err = cl[f]
\* flush-closer: Close is exactly one Flush
C47_FlushCloser(cl, ops, obs) ==
  \A j \in 1..Len(ops) : ops[j].op = "Close" => obs[j].x = <<1>> /\ obs[j].err = cl[1]

\* the contract of the helper of case cfg
Contract(cfg, ops, obs) ==
  CASE cfg.kind = "cutoff"     -> C47_Cutoff(cfg.n, ops, obs)
    [] cfg.kind = "hashed"     -> C47_Hashed(ops, obs)
    [] cfg.kind = "preempt"    -> C47_Preempt(cfg.n, ops, obs)
    [] cfg.kind = "valve"      -> C47_Valve(cfg.n = 1, ops, obs)
    [] cfg.kind = "audit"      -> C47_Audit(cfg.n = 1, ops, obs)
    [] cfg.kind = "concurrent" -> C47_Concurrent(ops, obs)
    [] cfg.kind = "line"       -> C47_Line(cfg.n, ops, obs)
    [] cfg.kind = "mcloser"    -> C47_MultiCloser(cfg.cl, ops, obs)
    [] cfg.kind = "mflusher"   -> C47_MultiFlusher(cfg.cl, ops, obs)
    [] cfg.kind = "fcloser"    -> C47_FlushCloser(cfg.cl, ops, obs)

\* hashed, on the real SHA-256: the helper's digest equals the downstream writer's own digest of what it accepted
C47_Digest(h1, h2) == h1 = h2

(* ---- schedules (event orders; models: StreamRace.tla, StreamPreemptRace.tla) ---- *)
\* An event order is a sequence of records [e, who, err, ...]; the position in the sequence is the
\* event's ticket (the driver draws tickets from one counter under one mutex, so recorded order = ticket
\* order).  e: "w-call" / "w-ret" (a Write call `who` starts / has returned, err its error kind),
\* "ds-enter" / "ds-exit" (the underlying writer is entered / left on behalf of call `who`),
\* "shut-call" / "shut-ret", "cancel-call" / "cancel-ret".  Verdicts use tickets only, never durations.
Idx(ev, e) == {i \in 1..Len(ev) : ev[i].e = e}
\* calls into the underlying writer never overlap: ds-enter and ds-exit alternate
Serialized(ev) ==
  \A i \in Idx(ev, "ds-enter") : \A k \in Idx(ev, "ds-enter") : k > i => \E m \in Idx(ev, "ds-exit") : i < m /\ m < k
\* once Shut has returned the underlying writer is not in the middle of a call ...
ShutIsFinal(ev) ==
  \A i \in Idx(ev, "shut-ret") : \A k \in Idx(ev, "ds-exit") : k > i => \E m \in Idx(ev, "ds-enter") : i < m /\ m < k
\* ... and "a shut valve discards": no call into the underlying writer begins after Shut has returned
C47_ShutDiscards(ev) ==
  \A i \in Idx(ev, "shut-ret") : \A k \in Idx(ev, "ds-enter") : k < i
\* a Write call reaches the underlying writer at most once
OncePerCall(ev) == \A i, k \in Idx(ev, "ds-enter") : i # k => ev[i].who # ev[k].who
\* a Write that returned before any Shut / Cancel was even called was forwarded
ForwardedIfUndisturbed(ev) ==
  \A i \in Idx(ev, "w-ret") :
     (\A k \in Idx(ev, "shut-call") \cup Idx(ev, "cancel-call") : k > i) => \E m \in Idx(ev, "ds-enter") : m < i /\ ev[m].who = ev[i].who
\* preemptable writer (one writing goroutine, one cancelling goroutine): of the Write calls that START after
\* Cancel has returned at most `interval` reach the underlying writer; a write is refused only after Cancel
\* was called; a refused write does not reach the underlying writer; after a refusal every later write is refused
PreemptWithinInterval(interval, ev) ==
  \A c \in Idx(ev, "cancel-ret") :
     LET late == {ev[i].who : i \in {x \in Idx(ev, "w-call") : x > c}}
     IN  Cardinality({k \in Idx(ev, "ds-enter") : ev[k].who \in late}) <= interval
PreemptRefusals(ev) ==
  LET refused == {i \in Idx(ev, "w-ret") : ev[i].err = "preempted"} IN
  /\ \A i \in refused : \E c \in Idx(ev, "cancel-call") : c < i
  /\ \A i \in refused : \A k \in Idx(ev, "ds-enter") : ev[k].who # ev[i].who
  /\ \A i \in refused : \A k \in Idx(ev, "w-ret") : k > i => k \in refused
C47_Schedule(kind, interval, ev) ==
  CASE kind = "valve"      -> Serialized(ev) /\ ShutIsFinal(ev) /\ OncePerCall(ev) /\ ForwardedIfUndisturbed(ev)
    [] kind = "concurrent" -> Serialized(ev) /\ OncePerCall(ev) /\ ForwardedIfUndisturbed(ev)
    [] kind = "preempt"    -> PreemptWithinInterval(interval, ev) /\ PreemptRefusals(ev) /\ OncePerCall(ev)
                              /\ ForwardedIfUndisturbed(ev)
\* recorded orders only: the bytes the underlying writer saw for a call are the bytes that call was given,
\* every Write reported what its fate implies (all bytes written, or refused with nothing written)
IntactBytes(ev) ==
  /\ \A k \in Idx(ev, "ds-enter") : \E i \in Idx(ev, "w-call") : i < k /\ ev[i].who = ev[k].who /\ ev[i].d = ev[k].d
  /\ \A r \in Idx(ev, "w-ret") : \E i \in Idx(ev, "w-call") : i < r /\ ev[i].who = ev[r].who /\
        IF ev[r].err = "preempted" THEN ev[r].n = 0 ELSE ev[r].err = "" /\ ev[r].n = Len(ev[i].d)

\* exact agreement of one observation with the machine's
C47_Exact(want, got) == got.n = want.n /\ got.err = want.err /\ got.ds = want.ds /\ got.x = want.x

(* ------------------------------- wire form ----------------------------- *)
SOp(op, data, a) == [op |-> op, data |-> data, a |-> a]
STup(o) == <<o.op, o.data, o.a>>
SUnTup(t) == SOp(t[1], t[2], t[3])
SObsOfTup(t) == SObs(t[1], t[2], t[3], t[4])
====
