CONSTANTS Caps = {0, 1, 2, 3} Depth = 3 Mode = "seq"
SPECIFICATION Spec
INVARIANTS InvType InvRefines InvBytes InvCounts InvFullEmpty InvDrainedAtZero Export
CHECK_DEADLOCK FALSE
