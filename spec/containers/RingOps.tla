---- MODULE RingOps ----
(***************************************************************************)
(* C26 -- pkg/multiplexing/ring/buffer.go                                   *)
(*                                                                         *)
(* Two descriptions of the same object and the operator that relates them: *)
(*                                                                         *)
(*  F*  the ABSTRACT bounded FIFO byte queue of capacity c: a sequence q    *)
(*      with Len(q) <= c.  Every operation is given in closed form (no      *)
(*      loops, no indices): this is what "a bounded first-in-first-out      *)
(*      queue of the same capacity would return".                           *)
(*  C*  the CONCRETE ring exactly as buffer.go implements it: storage,      *)
(*      size, start, used, the modular arithmetic and the (at most two-     *)
(*      iteration) loops over contiguous segments, transcribed line by      *)
(*      line.                                                               *)
(*                                                                         *)
(* Ring.tla model-checks that C* refines F* (same results, same contents)   *)
(* for every operation sequence of the bound.  Ring_Trace.tla replays F*    *)
(* along operations executed on the real ring.Buffer and compares every     *)
(* real result with it (C26 is an exactness property).                      *)
(*                                                                         *)
(* Peers.  ReadNFrom and WriteTo talk to an io.Reader / io.Writer.  They    *)
(* are scripted:                                                            *)
(*   reader  [data, ch, e, w]: a stream holding exactly the bytes `data`;   *)
(*           each Read returns at most `ch` bytes (0 = as many as asked);   *)
(*           e = "none": the stream does not end (data is longer than the   *)
(*           request, so that reading beyond n would show); e = "eof" /     *)
(*           "err": when the data is exhausted the                          *)
(*           reader reports io.EOF / its own error -- together with the     *)
(*           last bytes if w (EOF-with-data), otherwise by a separate call  *)
(*           returning 0 bytes.                                             *)
(*   writer  [av, w]: accepts av bytes in total (-1 = unlimited); the call  *)
(*           that would exceed av accepts what fits and fails (short write  *)
(*           + error); if w (eager) the call that reaches av fails too.     *)
(* Error kinds: "" nil, "full" ErrBufferFull, "eof" io.EOF, "err" the       *)
(* peer's own error, "overrun" (a reader asked for more than its script).   *)
(***************************************************************************)
EXTENDS Integers, Sequences

Min(a, b) == IF a < b THEN a ELSE b
Max(a, b) == IF a > b THEN a ELSE b
Take(s, k) == SubSeq(s, 1, k)
Drop(s, k) == SubSeq(s, k + 1, Len(s))

Res(n, err, out) == [n |-> n, err |-> err, out |-> out]

(* ------------------------------ scripted peers ------------------------- *)
\* one Read(p) on the scripted reader that has delivered pos bytes so far
ReaderCall(rs, pos, p) ==
  LET rem == Len(rs.data) - pos
      lim == IF rs.ch = 0 THEN p ELSE Min(p, rs.ch)
      k   == Min(lim, rem)
  IN  IF rem = 0 THEN [k |-> 0, err |-> IF rs.e = "none" THEN "overrun" ELSE rs.e]
      ELSE IF rs.e # "none" /\ k = rem /\ rs.w THEN [k |-> k, err |-> rs.e]
      ELSE [k |-> k, err |-> ""]

\* one Write(p bytes) on the scripted writer that has accepted acc bytes so far
WriterCall(ws, acc, p) ==
  IF ws.av < 0 THEN [k |-> p, err |-> ""]
  ELSE IF acc + p > ws.av THEN [k |-> ws.av - acc, err |-> "err"]
  ELSE IF ws.w /\ acc + p = ws.av THEN [k |-> p, err |-> "err"]
  ELSE [k |-> p, err |-> ""]

(* ------------------------- abstract bounded FIFO ----------------------- *)
\* every operator returns [q |-> new queue, r |-> Res(count, error kind, bytes handed out)]
FWrite(q, c, data) ==
  LET k == Min(Len(data), c - Len(q))
  IN  [q |-> q \o Take(data, k), r |-> Res(k, IF k < Len(data) THEN "full" ELSE "", <<>>)]

FWriteByte(q, c, v) ==
  IF Len(q) = c THEN [q |-> q, r |-> Res(0, "full", <<>>)]
  ELSE [q |-> Append(q, v), r |-> Res(0, "", <<>>)]

FRead(q, n) ==
  IF n = 0 THEN [q |-> q, r |-> Res(0, "", <<>>)]
  ELSE IF Len(q) = 0 THEN [q |-> q, r |-> Res(0, "eof", <<>>)]
  ELSE LET k == Min(n, Len(q)) IN [q |-> Drop(q, k), r |-> Res(k, "", Take(q, k))]

FReadByte(q) ==
  IF Len(q) = 0 THEN [q |-> q, r |-> Res(0, "eof", <<>>)]
  ELSE [q |-> Tail(q), r |-> Res(0, "", <<Head(q)>>)]

FReset(q) == [q |-> <<>>, r |-> Res(0, "", <<>>)]

\* ReadNFrom(reader, n): take min(n, free, available) bytes from the stream.
\* Error, in the order the documentation of ReadNFrom gives:
\*   the stream ended before min(n, free) bytes could be taken -> its end error;
\*   it ended together with the last byte taken (EOF-with-data)  -> its end error,
\*        except io.EOF when the request is complete (n bytes taken);
\*   the request could not be completed for lack of space         -> ErrBufferFull.
FReadNFrom(q, c, rs, n) ==
  LET f == c - Len(q)
      m == Min(n, f)
      avail == Len(rs.data)
      t == IF n <= 0 THEN 0 ELSE Min(m, avail)
      ends == rs.e # "none"
      err == IF n <= 0 THEN ""
             ELSE IF m = 0 THEN "full"
             ELSE IF ends /\ avail < m THEN rs.e
             ELSE IF ends /\ avail = m /\ rs.w THEN (IF rs.e = "eof" /\ n = m THEN "" ELSE rs.e)
             ELSE IF ~ends /\ avail < m THEN "overrun"
             ELSE IF n > f THEN "full" ELSE ""
  IN  [q |-> q \o Take(rs.data, t), r |-> Res(t, err, <<>>)]

\* WriteTo(writer): hand the queue's bytes, oldest first, to the writer until it fails.
FWriteTo(q, ws) ==
  LET L == Len(q)
      t == IF ws.av < 0 THEN L ELSE Min(L, ws.av)
      err == IF ws.av >= 0 /\ L > 0 /\ (L > ws.av \/ (ws.w /\ L >= ws.av)) THEN "err" ELSE ""
  IN  [q |-> Drop(q, t), r |-> Res(t, err, Take(q, t))]

\* an operation descriptor: [op, n, data, av, ch, e, w]
FApply(q, c, o) ==
  CASE o.op = "W"   -> FWrite(q, c, o.data)
    [] o.op = "WB"  -> FWriteByte(q, c, o.data[1])
    [] o.op = "R"   -> FRead(q, o.n)
    [] o.op = "RB"  -> FReadByte(q)
    [] o.op = "RS"  -> FReset(q)
    [] o.op = "RNF" -> FReadNFrom(q, c, o, o.n)
    [] o.op = "WT"  -> FWriteTo(q, o)

(* --------------------- concrete ring (buffer.go) ----------------------- *)
\* b = [storage : 0..size-1 -> byte, size, start, used]
NewBuffer(size) ==
  IF size <= 0 THEN [storage |-> <<>>, size |-> 0, start |-> 0, used |-> 0]
  ELSE [storage |-> [i \in 0..(size - 1) |-> 0], size |-> size, start |-> 0, used |-> 0]

\* copy(storage[at:], src[from+1 .. from+k])
Blit(storage, at, src, from, k) ==
  [i \in DOMAIN storage |-> IF i >= at /\ i < at + k THEN src[from + (i - at) + 1] ELSE storage[i]]
\* storage[lo:hi] as a sequence
Slice(storage, lo, hi) == [i \in 1..(hi - lo) |-> storage[lo + i - 1]]

\* func (b *Buffer) Write(data []byte) (int, error)
RECURSIVE CWriteLoop(_, _, _)
CWriteLoop(b, data, result) ==
  IF Len(data) > 0 /\ b.used # b.size
  THEN LET freeStart == (b.start + b.used) % b.size
           hi == Min(freeStart + (b.size - b.used), b.size)
           copied == Min(hi - freeStart, Len(data))
       IN  CWriteLoop([b EXCEPT !.storage = Blit(b.storage, freeStart, data, 0, copied), !.used = @ + copied],
                      Drop(data, copied), result + copied)
  ELSE [b |-> b, r |-> Res(result, IF Len(data) > 0 /\ b.used = b.size THEN "full" ELSE "", <<>>)]
CWrite(b, data) == CWriteLoop(b, data, 0)

\* func (b *Buffer) WriteByte(value byte) error
CWriteByte(b, v) ==
  IF b.used = b.size THEN [b |-> b, r |-> Res(0, "full", <<>>)]
  ELSE LET freeStart == (b.start + b.used) % b.size
       IN  [b |-> [b EXCEPT !.storage[freeStart] = v, !.used = @ + 1], r |-> Res(0, "", <<>>)]

\* func (b *Buffer) ReadNFrom(reader io.Reader, n int) (int, error)
RECURSIVE CReadNFromLoop(_, _, _, _, _, _)
CReadNFromLoop(b, rs, pos, n, result, err) ==
  IF n > 0 /\ b.used # b.size /\ err = ""
  THEN LET freeStart == (b.start + b.used) % b.size
           hi == Min(freeStart + (b.size - b.used), b.size)
           seg == IF hi - freeStart > n THEN n ELSE hi - freeStart
           rc == ReaderCall(rs, pos, seg)
       IN  CReadNFromLoop([b EXCEPT !.storage = Blit(b.storage, freeStart, rs.data, pos, rc.k), !.used = @ + rc.k],
                          rs, pos + rc.k, n - rc.k, result + rc.k, rc.err)
  ELSE LET e1 == IF n > 0 /\ b.used = b.size /\ err = "" THEN "full" ELSE err
           e2 == IF e1 = "eof" /\ n = 0 THEN "" ELSE e1
       IN  [b |-> b, r |-> Res(result, e2, <<>>)]
CReadNFrom(b, rs, n) == CReadNFromLoop(b, rs, 0, n, 0, "")

\* func (b *Buffer) Read(buffer []byte) (int, error)
RECURSIVE CReadLoop(_, _, _)
CReadLoop(b, want, out) ==
  IF want > 0 /\ b.used > 0
  THEN LET hi == Min(b.start + b.used, b.size)
           copied == Min(hi - b.start, want)
       IN  CReadLoop([b EXCEPT !.start = (b.start + copied) % b.size, !.used = @ - copied],
                     want - copied, out \o Slice(b.storage, b.start, b.start + copied))
  ELSE [b |-> IF b.used = 0 THEN [b EXCEPT !.start = 0] ELSE b, r |-> Res(Len(out), "", out)]
CRead(b, n) ==
  IF n = 0 THEN [b |-> b, r |-> Res(0, "", <<>>)]
  ELSE IF b.used = 0 THEN [b |-> b, r |-> Res(0, "eof", <<>>)]
  ELSE CReadLoop(b, n, <<>>)

\* func (b *Buffer) ReadByte() (byte, error)
CReadByte(b) ==
  IF b.used = 0 THEN [b |-> b, r |-> Res(0, "eof", <<>>)]
  ELSE LET v == b.storage[b.start]
           b1 == [b EXCEPT !.start = (b.start + 1) % b.size, !.used = @ - 1]
       IN  [b |-> IF b1.used = 0 THEN [b1 EXCEPT !.start = 0] ELSE b1, r |-> Res(0, "", <<v>>)]

\* func (b *Buffer) WriteTo(writer io.Writer) (int64, error)
RECURSIVE CWriteToLoop(_, _, _, _, _)
CWriteToLoop(b, ws, result, err, out) ==
  IF b.used > 0 /\ err = ""
  THEN LET hi == Min(b.start + b.used, b.size)
           wc == WriterCall(ws, result, hi - b.start)
       IN  CWriteToLoop([b EXCEPT !.start = (b.start + wc.k) % b.size, !.used = @ - wc.k],
                        ws, result + wc.k, wc.err, out \o Slice(b.storage, b.start, b.start + wc.k))
  ELSE [b |-> IF b.used = 0 THEN [b EXCEPT !.start = 0] ELSE b, r |-> Res(result, err, out)]
CWriteTo(b, ws) == CWriteToLoop(b, ws, 0, "", <<>>)

\* func (b *Buffer) Reset()
CReset(b) == [b |-> [b EXCEPT !.start = 0, !.used = 0], r |-> Res(0, "", <<>>)]

CApply(b, o) ==
  CASE o.op = "W"   -> CWrite(b, o.data)
    [] o.op = "WB"  -> CWriteByte(b, o.data[1])
    [] o.op = "R"   -> CRead(b, o.n)
    [] o.op = "RB"  -> CReadByte(b)
    [] o.op = "RS"  -> CReset(b)
    [] o.op = "RNF" -> CReadNFrom(b, o, o.n)
    [] o.op = "WT"  -> CWriteTo(b, o)

(* --------------------------- refinement mapping ------------------------ *)
\* the queue a concrete ring represents: used bytes from start, wrapping
AbsOf(b) == [i \in 1..b.used |-> b.storage[(b.start + i - 1) % b.size]]

RingTypeOK(b) ==
  /\ b.size >= 0 /\ b.used \in 0..b.size
  /\ IF b.size = 0 THEN b.start = 0 ELSE b.start \in 0..(b.size - 1)
  /\ DOMAIN b.storage = 0..(b.size - 1)

(* ------------------------------ the property --------------------------- *)
\* what is observable after one operation: its result and Used/Free/Size
Obs(r, used, free, size) == [n |-> r.n, err |-> r.err, out |-> r.out, used |-> used, free |-> free, size |-> size]
FObs(fa, c) == Obs(fa.r, Len(fa.q), c - Len(fa.q), c)
CObs(ca) == Obs(ca.r, ca.b.used, ca.b.size - ca.b.used, ca.b.size)

\* C26: the observation equals the bounded FIFO's.  Split so that a failure names its clause.
C26_FifoBytes(want, got)  == got.out = want.out
C26_Counts(want, got)     == got.n = want.n /\ got.used = want.used /\ got.free = want.free /\ got.size = want.size
C26_FullEmpty(want, got)  == got.err = want.err

(* ----------------------------- the alphabets --------------------------- *)
Fresh(nxt, k) == [i \in 1..k |-> nxt + i - 1]
D(op, n, data, av, ch, e, w) == [op |-> op, n |-> n, data |-> data, av |-> av, ch |-> ch, e |-> e, w |-> w]

\* wire form (JSON arrays keep the exported behaviours and the recorded traces small):
\* an operation is <<op, n, data, av, ch, e, w>>, an observation <<n, err, out, used, free, size>>
Tup(o)   == <<o.op, o.n, o.data, o.av, o.ch, o.e, o.w>>
UnTup(t) == D(t[1], t[2], t[3], t[4], t[5], t[6], t[7])
ObsOfTup(t) == [n |-> t[1], err |-> t[2], out |-> t[3], used |-> t[4], free |-> t[5], size |-> t[6]]

\* every operation shape of kind k the checks use on a ring of capacity c (data drawn fresh from nxt)
FullOps(k, c, nxt) ==
  CASE k = "W"   -> {D("W", n, Fresh(nxt, n), 0, 0, "", FALSE) : n \in 0..(c + 1)}
    [] k = "WB"  -> {D("WB", 1, Fresh(nxt, 1), 0, 0, "", FALSE)}
    [] k = "R"   -> {D("R", n, <<>>, 0, 0, "", FALSE) : n \in 0..(c + 1)}
    [] k = "RB"  -> {D("RB", 0, <<>>, 0, 0, "", FALSE)}
    [] k = "RS"  -> {D("RS", 0, <<>>, 0, 0, "", FALSE)}
    [] k = "RNF" -> {D("RNF", n, Fresh(nxt, Max(n, 0) + 2), Max(n, 0) + 2, ch, "none", FALSE) : n \in (-1)..(c + 1), ch \in {0, 1}}
                    \cup UNION {{D("RNF", n, Fresh(nxt, av), av, ch, e, w) :
                                   av \in 0..(n + 1), ch \in {0, 1}, e \in {"eof", "err"}, w \in BOOLEAN} : n \in 1..(c + 1)}
    [] k = "WT"  -> {D("WT", 0, <<>>, -1, 0, "", FALSE)} \cup {D("WT", 0, <<>>, av, 0, "", w) : av \in 0..c, w \in BOOLEAN}

\* the smaller alphabet of the exhaustive-sequence configurations
CoreOps(k, c, nxt) ==
  CASE k = "W"   -> {D("W", n, Fresh(nxt, n), 0, 0, "", FALSE) : n \in 1..(c + 1)}
    [] k = "WB"  -> {D("WB", 1, Fresh(nxt, 1), 0, 0, "", FALSE)}
    [] k = "R"   -> {D("R", n, <<>>, 0, 0, "", FALSE) : n \in 1..Max(c, 1)}
    [] k = "RB"  -> {D("RB", 0, <<>>, 0, 0, "", FALSE)}
    [] k = "RS"  -> {D("RS", 0, <<>>, 0, 0, "", FALSE)}
    [] k = "RNF" -> {D("RNF", 2, Fresh(nxt, 4), 4, ch, "none", FALSE) : ch \in {0, 1}}
                    \cup {D("RNF", 2, Fresh(nxt, 1), 1, 0, "eof", TRUE), D("RNF", 2, Fresh(nxt, 1), 1, 0, "err", FALSE),
                          D("RNF", c + 1, Fresh(nxt, c + 1), c + 1, 0, "eof", TRUE)}
    [] k = "WT"  -> {D("WT", 0, <<>>, -1, 0, "", FALSE), D("WT", 0, <<>>, 1, 0, "", FALSE)}

\* membership of a descriptor in the full alphabet without building the set (trace side; data is free)
IsOp(c, o) ==
     CASE o.op = "W"   -> o.n = Len(o.data) /\ o.n \in 0..(c + 1)
       [] o.op = "WB"  -> Len(o.data) = 1
       [] o.op = "R"   -> o.n \in 0..(c + 1)
       [] o.op = "RB"  -> TRUE
       [] o.op = "RS"  -> TRUE
       [] o.op = "RNF" -> /\ o.n \in (-1)..Max(c + 1, 2) /\ o.av = Len(o.data) /\ o.ch \in {0, 1, 2}
                          /\ \/ o.e = "none" /\ o.av = Max(o.n, 0) + 2
                             \/ o.e \in {"eof", "err"} /\ o.av \in 0..(o.n + 1)
       [] o.op = "WT"  -> o.av \in (-1)..Max(c, 1)
       [] OTHER -> FALSE
====
