CONSTANTS Interval = 1 NWrites = 4
SPECIFICATION Spec
INVARIANT InvSchedule
CHECK_DEADLOCK FALSE
