CONSTANTS Interval = 2 NWrites = 5
SPECIFICATION Spec
INVARIANT InvSchedule
CHECK_DEADLOCK FALSE
