---- MODULE Ring ----
(***************************************************************************)
(* C26 design leg: the concrete ring of buffer.go (the C-operators of      *)
(* RingOps) run in lock step with the abstract bounded FIFO (its            *)
(* F-operators) over every operation sequence of the bound.                 *)
(*  Invariants: the concrete representation stays    *)
(* well-formed, represents exactly the FIFO's contents (refinement mapping  *)
(* AbsOf) and every operation returned exactly what the FIFO returns.       *)
(*                                                                         *)
(* The same run exports the behaviours the driver executes on the real      *)
(* ring.Buffer:                                                             *)
(*   Mode = "seq"   every operation sequence of length Depth over CoreOps   *)
(*                  (history is part of the state; exported when complete)  *)
(*   Mode = "cover" every (reachable concrete state, operation of FullOps)  *)
(*                  pair: VIEW collapses states to <<size,start,used>>, the *)
(*                  history is one shortest path to the state, and each     *)
(*                  transition taken from it is exported as path + op.      *)
(***************************************************************************)
EXTENDS RingOps, TLC, Json

CONSTANTS Caps,      \* set of sizes passed to NewBuffer
          Depth,     \* seq mode: length of the exported sequences
          Mode       \* "seq" | "cover"

VARIABLES b,         \* concrete ring
          q,         \* abstract FIFO
          cap,       \* capacity of the FIFO = max(size, 0)
          nxt,       \* next fresh byte value
          hist,      \* operations applied so far
          last       \* [c |-> concrete observation, a |-> abstract observation] of the last operation

vars == <<b, q, cap, nxt, hist, last>>
\* cfg files cannot hold negative numbers: sizes for the cover configurations (NewBuffer(-1) is a zero-capacity ring)
CoverCapsQuick == (-1)..3
CoverCapsThorough == (-1)..6
View == <<b.size, b.start, b.used>>

NoObs == Obs(Res(0, "", <<>>), 0, 0, 0)

Init == /\ \E s \in Caps : b = NewBuffer(s) /\ cap = Max(s, 0)
        /\ q = <<>> /\ nxt = 1 /\ hist = <<>>
        /\ last = [c |-> NoObs, a |-> NoObs]

Drain == D("WT", 0, <<>>, -1, 0, "", FALSE)

Behaviour(ops) == ToJson([size |-> b.size, src |-> Mode, ops |-> [i \in 1..Len(ops) |-> Tup(ops[i])]])

\* one API call on the ring, mirrored on the FIFO
Do(o) ==
  LET ca == CApply(b, o)
      fa == FApply(q, cap, o)
  IN  /\ b' = ca.b /\ q' = fa.q /\ UNCHANGED cap
      /\ nxt' = nxt + Len(o.data)
      /\ hist' = Append(hist, o)
      /\ last' = [c |-> CObs(ca), a |-> FObs(fa, cap)]
      /\ Mode = "cover" => PrintT(<<"BEHAVIOUR", Behaviour(Append(Append(hist, o), Drain))>>)

OpsOf(kind) == IF Mode = "seq" THEN CoreOps(kind, cap, nxt) ELSE FullOps(kind, cap, nxt)

\* named after the exported methods of ring.Buffer
Write      == \E o \in OpsOf("W") : Do(o)
WriteByte  == \E o \in OpsOf("WB") : Do(o)
ReadNFrom  == \E o \in OpsOf("RNF") : Do(o)
Read       == \E o \in OpsOf("R") : Do(o)
ReadByte   == \E o \in OpsOf("RB") : Do(o)
WriteTo    == \E o \in OpsOf("WT") : Do(o)
Reset      == \E o \in OpsOf("RS") : Do(o)

Next == /\ (Mode = "seq" => Len(hist) < Depth)
        /\ (Write \/ WriteByte \/ ReadNFrom \/ Read \/ ReadByte \/ WriteTo \/ Reset)

Spec == Init /\ [][Next]_vars

(* ------------------------------ invariants ----------------------------- *)
InvType    == RingTypeOK(b) /\ Len(q) <= cap
InvRefines == AbsOf(b) = q                       \* the ring holds exactly the FIFO's bytes, oldest first
InvBytes   == C26_FifoBytes(last.a, last.c)      \* the same property operators the trace module applies
InvCounts  == C26_Counts(last.a, last.c)         \* to the real observations
InvFullEmpty == C26_FullEmpty(last.a, last.c)
\* the optimising reset: a drained ring always restarts at index 0
InvDrainedAtZero == b.used = 0 /\ hist # <<>> /\ hist[Len(hist)].op \in {"R", "RB", "WT", "RS"} => b.start = 0

\* seq mode: export every complete sequence once (the history is part of the state)
Export == (Mode = "seq" /\ Len(hist) = Depth) => PrintT(<<"BEHAVIOUR", Behaviour(Append(hist, Drain))>>)
====
