---- MODULE LRU ----
(***************************************************************************)
(* C45 design leg: the concrete list+index cache of lru.go (K-operators of  *)
(* LRUOps) in lock step with the abstract last-use-time cache (A-operators) *)
(* over every canonical operation sequence of length Depth.  Invariants:    *)
(* list and index stay consistent, the list is the abstract cache's live    *)
(* set in recency order, every operation returns what the abstract cache    *)
(* returns and reports the same evictions.  Complete sequences are exported *)
(* as behaviours for the driver.                                            *)
(***************************************************************************)
EXTENDS LRUOps, TLC, Json

CONSTANTS Caps,      \* capacities (0 = unbounded)
          Extra,     \* a bounded cache of capacity c is driven with c + Extra keys
          KeysU,     \* number of keys for the unbounded cache
          Depth,     \* length of the exported sequences ...
          DeepCaps   \* ... for these capacities; one less for the others

VARIABLES k, s, cap, nkeys, mk, nxt, hist, last
DepthOf(c) == IF c \in DeepCaps THEN Depth ELSE Depth - 1
vars == <<k, s, cap, nkeys, mk, nxt, hist, last>>

NoRes == LRes(FALSE, 0, 0, <<>>)

Init == /\ \E c \in Caps : cap = c /\ nkeys = (IF c = 0 THEN KeysU ELSE c + Extra)
        /\ k = KInit /\ s = AInit /\ mk = 0 /\ nxt = 1 /\ hist = <<>>
        /\ last = [c |-> NoRes, a |-> NoRes]

Do(o) ==
  LET kc == KApply(k, cap, o)
      ac == AApply(s, cap, o)
  IN  /\ k' = kc.k /\ s' = ac.s /\ UNCHANGED <<cap, nkeys>>
      /\ mk' = (IF o.k > mk THEN o.k ELSE mk)
      /\ nxt' = (IF o.op = "Add" THEN nxt + 1 ELSE nxt)
      /\ hist' = Append(hist, o)
      /\ last' = [c |-> kc.r, a |-> ac.r]

Alphabet == LOps(nkeys, mk, nxt)
Add    == \E o \in {x \in Alphabet : x.op = "Add"} : Do(o)
Get    == \E o \in {x \in Alphabet : x.op = "Get"} : Do(o)
Remove == \E o \in {x \in Alphabet : x.op = "Remove"} : Do(o)

Next == Len(hist) < DepthOf(cap) /\ (Add \/ Get \/ Remove)
Spec == Init /\ [][Next]_vars

InvWellFormed == KWellFormed(k)
InvRefines    == KRefines(k, s)
InvBounded    == ABounded(s, cap)
InvHolds      == C45_Holds(last.a, last.c)
InvEvictions  == C45_Evictions(last.a, last.c)

Export == Len(hist) = DepthOf(cap) =>
  PrintT(<<"BEHAVIOUR", ToJson([cap |-> cap, nkeys |-> nkeys, src |-> "seq", ops |-> [i \in 1..Len(hist) |-> LTup(hist[i])]])>>)
====
