CONSTANTS Writers = {"A", "B"} WithShut = TRUE StaleRead = TRUE
SPECIFICATION Spec
INVARIANTS InvSchedule InvShutDiscards InvMutex
CHECK_DEADLOCK FALSE
