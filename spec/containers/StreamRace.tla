---- MODULE StreamRace ----
(***************************************************************************)
(* C47, schedules.  ValveWriter and concurrentWriter protect the underlying *)
(* writer with one mutex: Write holds it across the downstream call, Shut   *)
(* holds it while it drops the writer.  This module interleaves Writers     *)
(* (and, for the valve, one Shut) at the granularity of lock / downstream   *)
(* entry / downstream exit / unlock and checks, on the event order, the two *)
(* schedule contracts of StreamOps (Serialized, ShutIsFinal) -- the same    *)
(* operators StreamWriters_Trace.tla evaluates on event orders recorded     *)
(* from the real helpers while one write is held inside the downstream      *)
(* writer.                                                                  *)
(***************************************************************************)
EXTENDS StreamOps, TLC

CONSTANTS Writers,     \* writer processes
          WithShut     \* TRUE: a valve with one Shut call; FALSE: no Shut (valve or concurrent writer)

VARIABLES pc,          \* per process: "idle" "locked" "inds" "unlock" "done"
          lock,        \* holder of the mutex, or "free"
          open,        \* the valve still has its writer
          events       \* what the driver's event log would show

vars == <<pc, lock, open, events>>
Procs == Writers \cup (IF WithShut THEN {"shut"} ELSE {})

Init == pc = [p \in Procs |-> "idle"] /\ lock = "free" /\ open = TRUE /\ events = <<>>

\* w.writerLock.Lock()
Lock(p) == pc[p] = "idle" /\ lock = "free" /\ lock' = p /\ pc' = [pc EXCEPT ![p] = "locked"] /\ UNCHANGED <<open, events>>
\* if w.writer == nil { return len(buffer), nil }; otherwise enter w.writer.Write
Enter(p) == /\ p \in Writers /\ pc[p] = "locked"
            /\ IF open THEN pc' = [pc EXCEPT ![p] = "inds"] /\ events' = Append(events, "ds-enter")
                       ELSE pc' = [pc EXCEPT ![p] = "unlock"] /\ UNCHANGED events
            /\ UNCHANGED <<lock, open>>
\* the downstream writer returns
Exit(p) == p \in Writers /\ pc[p] = "inds" /\ pc' = [pc EXCEPT ![p] = "unlock"] /\ events' = Append(events, "ds-exit")
           /\ UNCHANGED <<lock, open>>
\* w.writer = nil
Drop == WithShut /\ pc["shut"] = "locked" /\ open' = FALSE /\ pc' = [pc EXCEPT !["shut"] = "unlock"] /\ UNCHANGED <<lock, events>>
\* deferred Unlock, then the call returns
Unlock(p) == /\ pc[p] = "unlock" /\ lock' = "free" /\ pc' = [pc EXCEPT ![p] = "done"]
             /\ events' = (IF p = "shut" THEN Append(events, "shut-ret") ELSE events) /\ UNCHANGED open

Next == \E p \in Procs : Lock(p) \/ Enter(p) \/ Exit(p) \/ Unlock(p) \/ Drop
Spec == Init /\ [][Next]_vars

InvSchedule == C47_Schedule(IF WithShut THEN "valve-shut" ELSE "write", events)
InvMutex == \A p \in Procs : pc[p] \in {"locked", "inds", "unlock"} => lock = p
====
