---- MODULE StreamRace ----
(***************************************************************************)
(* C47, schedules of the lock-protected helpers.  ValveWriter and           *)
(* concurrentWriter guard the underlying writer with one mutex:             *)
(*     Write:  Lock ; (valve: if w.writer == nil return) ; w.writer.Write ; *)
(*             Unlock                                                       *)
(*     Shut:   Lock ; w.writer = nil ; Unlock                               *)
(* Each line of that is one step here (call, [read field], lock, read field *)
(* + enter the underlying writer, leave it, unlock, return), all            *)
(* interleavings of the Writers and (WithShut) one Shut are explored, and   *)
(* the schedule contracts of StreamOps are checked on the event order --    *)
(* the same operators StreamWriters_Trace.tla evaluates on ticketed event   *)
(* orders recorded from the real helpers while one Write is held inside a   *)
(* gated underlying writer and two more calls queue on the mutex.           *)
(*                                                                         *)
(* StaleRead = FALSE is the code: the writer field is read under the lock.  *)
(* StaleRead = TRUE is the what-if variant (StreamRace_MC_whatif.cfg, not   *)
(* part of any check): the field is read into a local BEFORE Lock and the   *)
(* local is used under the lock.  TLC then finds  A in the underlying       *)
(* writer, Shut queued, B reads non-nil and queues, A leaves, Shut runs and *)
(* returns, B writes -- C47_ShutDiscards is violated, i.e. the invariant    *)
(* has teeth exactly where a sequential test has none.                      *)
(***************************************************************************)
EXTENDS StreamOps, TLC

CONSTANTS Writers,     \* Write calls (one process each)
          WithShut,    \* TRUE: a valve with one Shut call; FALSE: no Shut (valve or concurrent writer)
          StaleRead    \* what-if: read w.writer before taking the lock

VARIABLES pc,          \* per process: idle called read locked inds unlock ret done
          lock,        \* holder of the mutex, or "free"
          open,        \* w.writer # nil
          local,       \* per writer: the value of "w.writer # nil" it read
          events       \* the ticketed event order

vars == <<pc, lock, open, local, events>>
Procs == Writers \cup (IF WithShut THEN {"shut"} ELSE {})
E(e, who) == [e |-> e, who |-> who, err |-> ""]
Goto(p, l) == pc' = [pc EXCEPT ![p] = l]

Init == /\ pc = [p \in Procs |-> "idle"] /\ lock = "free" /\ open = TRUE
        /\ local = [p \in Writers |-> TRUE] /\ events = <<>>

\* the call starts (ticket)
Call(p) == /\ pc[p] = "idle" /\ Goto(p, "called")
           /\ events' = Append(events, E(IF p = "shut" THEN "shut-call" ELSE "w-call", p))
           /\ UNCHANGED <<lock, open, local>>
\* what-if only: writer := w.writer before the lock
ReadEarly(p) == /\ StaleRead /\ p \in Writers /\ pc[p] = "called" /\ Goto(p, "read")
                /\ local' = [local EXCEPT ![p] = open] /\ UNCHANGED <<lock, open, events>>
\* w.writerLock.Lock()
Lock(p) == /\ pc[p] = (IF StaleRead /\ p \in Writers THEN "read" ELSE "called") /\ lock = "free"
           /\ lock' = p /\ Goto(p, "locked") /\ UNCHANGED <<open, local, events>>
\* if w.writer == nil { return len(buffer), nil }; otherwise w.writer.Write(buffer) is entered
Enter(p) == /\ p \in Writers /\ pc[p] = "locked"
            /\ IF (IF StaleRead THEN local[p] ELSE open)
               THEN Goto(p, "inds") /\ events' = Append(events, E("ds-enter", p))
               ELSE Goto(p, "unlock") /\ UNCHANGED events
            /\ UNCHANGED <<lock, open, local>>
\* the underlying writer returns
Exit(p) == /\ p \in Writers /\ pc[p] = "inds" /\ Goto(p, "unlock")
           /\ events' = Append(events, E("ds-exit", p)) /\ UNCHANGED <<lock, open, local>>
\* Shut: w.writer = nil
Drop == /\ WithShut /\ pc["shut"] = "locked" /\ open' = FALSE /\ Goto("shut", "unlock")
        /\ UNCHANGED <<lock, local, events>>
\* deferred Unlock
Unlock(p) == pc[p] = "unlock" /\ lock' = "free" /\ Goto(p, "ret") /\ UNCHANGED <<open, local, events>>
\* the call has returned (ticket)
Return(p) == /\ pc[p] = "ret" /\ Goto(p, "done")
             /\ events' = Append(events, E(IF p = "shut" THEN "shut-ret" ELSE "w-ret", p))
             /\ UNCHANGED <<lock, open, local>>

Next == \E p \in Procs : Call(p) \/ ReadEarly(p) \/ Lock(p) \/ Enter(p) \/ Exit(p) \/ Unlock(p) \/ Return(p) \/ Drop
Spec == Init /\ [][Next]_vars

InvSchedule == C47_Schedule(IF WithShut THEN "valve" ELSE "concurrent", 0, events)
InvShutDiscards == C47_ShutDiscards(events)
InvMutex == \A p \in Procs : pc[p] \in {"locked", "inds", "unlock"} => lock = p
====
