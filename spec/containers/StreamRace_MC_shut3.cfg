CONSTANTS Writers = {"A", "B", "C"} WithShut = TRUE StaleRead = FALSE
SPECIFICATION Spec
INVARIANTS InvSchedule InvShutDiscards InvMutex
CHECK_DEADLOCK FALSE
