CONSTANT Want = {"C45_Holds", "C45_Evictions", "C45_DriverInSpace", "C45_TraceAccepted"}
SPECIFICATION TSpec
CHECK_DEADLOCK FALSE
