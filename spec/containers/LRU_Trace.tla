---- MODULE LRU_Trace ----
(***************************************************************************)
(* C45 binding leg.  Every record is one complete case on the real          *)
(* lru.Cache:                                                               *)
(*   in  = [cap, nkeys, cb, kt, src, tail, ops]  capacity, key-space size,  *)
(*         whether an eviction callback was installed, the Go key type the  *)
(*         cache was instantiated with, and the behaviour ([op, k, v]); the *)
(*         last `tail` operations were appended by the driver to expose the *)
(*         final contents (flush by eviction / lookups);                    *)
(*   res = per operation <<ok, v, len, ev>>: Get's (ok, value), Len() right *)
(*         after the call, and the <<key, value>> pairs the eviction        *)
(*         callback received during the call.                               *)
(* The abstract last-use-time cache of LRUOps is replayed along ops and     *)
(* every real observation is compared with it (exactness property).         *)
(* Without a callback nothing can be reported: ev must stay empty and the   *)
(* rest must still be exact.                                                *)
(***************************************************************************)
EXTENDS LRUOps, TraceKit

CONSTANT Want

VARIABLES l, fails, nops, done
tvars == <<l, fails, nops, done>>

WellFormed(r) ==
  /\ Has(r, "ev") /\ r.ev = "LRU" /\ Has(r, "in") /\ Has(r, "res")
  /\ {"cap", "nkeys", "cb", "src", "tail", "ops"} \subseteq DOMAIN r.in
  /\ Len(r.res) = Len(r.in.ops)
  /\ \A j \in 1..Len(r.res) : Len(r.res[j]) = 4 /\ Len(r.in.ops[j]) = 3

\* replay the abstract cache along ops; s is its state before operation j
RECURSIVE Fold(_, _, _, _, _, _)
Fold(cap, cb, ops, res, j, s) ==
  IF j > Len(ops) THEN [holds |-> TRUE, evs |-> TRUE]
  ELSE LET aa   == AApply(s, cap, LUnTup(ops[j]))
           want == IF cb THEN aa.r ELSE [aa.r EXCEPT !.ev = <<>>]
           got  == LResOfTup(res[j])
           rest == Fold(cap, cb, ops, res, j + 1, aa.s)
       IN  [holds |-> C45_Holds(want, got) /\ rest.holds,
            evs   |-> C45_Evictions(want, got) /\ rest.evs]

CaseFails(i, r) ==
  IF ~WellFormed(r) THEN <<Fail(i, "C45_TraceAccepted")>>
  ELSE LET v == Fold(r.in.cap, r.in.cb, r.in.ops, r.res, 1, AInit)
       IN    Chk(Want, i, "C45_Holds", v.holds)
          \o Chk(Want, i, "C45_Evictions", v.evs)
          \o Chk(Want, i, "C45_DriverInSpace",
                 r.in.src = "seq" => Canonical(SubSeq(r.in.ops, 1, Len(r.in.ops) - r.in.tail), 1, 0, r.in.nkeys))

TInit == l = 1 /\ fails = <<>> /\ nops = 0 /\ done = FALSE
Step == /\ l <= NRec
        /\ LET r == Trace[l] IN
           /\ fails' = Cap(fails \o CaseFails(l, r))
           /\ nops' = nops + (IF Has(r, "res") THEN Len(r.res) ELSE 0)
        /\ l' = l + 1 /\ UNCHANGED done
Finish == /\ l = NRec + 1 /\ ~done
          /\ WriteResult(l - 1, fails, [stat_ops |-> nops])
          /\ done' = TRUE /\ UNCHANGED <<l, fails, nops>>
TSpec == TInit /\ [][Step \/ Finish]_tvars
====
