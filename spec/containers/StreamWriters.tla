---- MODULE StreamWriters ----
(***************************************************************************)
(* C47 design leg: every helper machine of StreamOps driven through every   *)
(* operation sequence of the bound against every downstream script; on      *)
(* every reachable state the run observed so far satisfies the helper's     *)
(* contract.  Complete sequences are exported as behaviours for the driver. *)
(*                                                                         *)
(* Bounds (constants): write sizes 0..MaxSize with every downstream         *)
(* response (all / a proper prefix of each length + error / nothing +       *)
(* error); sequences of length D (writers), DP (preemptable: writes of one  *)
(* byte, full or failing, and Cancel), DL (line processor: chunks of length *)
(* 0..2 over {x, LF, CR}; one operation less for the limits 0 and 2);       *)
(* cutoff limits 0..CutoffMax; check intervals      *)
(* 0..IntervalMax; closer lists up to length ClMax over {nil, e1, e2}.      *)
(***************************************************************************)
EXTENDS StreamOps, TLC, Json

CONSTANTS MaxSize, D, DP, DL, CutoffMax, IntervalMax, ClMax

VARIABLES cfg, s, nxt, hist, obs
vars == <<cfg, s, nxt, hist, obs>>

Cfg(kind, n, cl) == [kind |-> kind, n |-> n, cl |-> cl]

RECURSIVE SeqsUpTo(_, _)
\* all sequences over S of length 0..k
SeqsUpTo(S, k) == IF k = 0 THEN {<<>>} ELSE LET shorter == SeqsUpTo(S, k - 1) IN shorter \cup {Append(q, x) : q \in shorter, x \in S}

ClNames == {"", "e1", "e2"}
\* line processor limits: none, the default (64 KiB), and two that the bounded chunks can exceed
LineMaxes == {-1, 0, 2, 3}

Cases ==
       {Cfg("cutoff", n, <<>>) : n \in 0..CutoffMax}
  \cup {Cfg("hashed", 0, <<>>), Cfg("concurrent", 0, <<>>)}
  \cup {Cfg("audit", n, <<>>) : n \in {0, 1}}
  \cup {Cfg("valve", n, <<>>) : n \in {0, 1}}
  \cup {Cfg("preempt", n, <<>>) : n \in 0..IntervalMax}
  \cup {Cfg("line", n, <<>>) : n \in LineMaxes}
  \cup {Cfg("mcloser", 0, cl) : cl \in SeqsUpTo(ClNames, ClMax)}
  \cup {Cfg("mflusher", 0, cl) : cl \in SeqsUpTo(ClNames, ClMax)}
  \cup {Cfg("fcloser", 0, <<e>>) : e \in {"", "e1"}}

DepthOf(c) ==
  CASE c.kind = "preempt" -> DP
    [] c.kind = "line" -> IF c.n \in {-1, 3} THEN DL ELSE DL - 1
    [] c.kind \in {"mcloser", "mflusher", "fcloser"} -> 1
    [] OTHER -> D

Fresh(n0, k) == [i \in 1..k |-> n0 + i - 1]
WOps(maxsize) == {SOp("W", Fresh(nxt, sz), a) : sz \in 0..maxsize, a \in (-1)..(maxsize - 1)}
LineChunks == SeqsUpTo({120, NL, CR}, 2)

OpsOf(c) ==
  CASE c.kind \in {"cutoff", "hashed", "concurrent", "audit"} -> {o \in WOps(MaxSize) : o.a < Len(o.data)}
    [] c.kind = "valve"   -> {o \in WOps(2) : o.a < Len(o.data)} \cup {SOp("Shut", <<>>, -1)}
    [] c.kind = "preempt" -> {SOp("W", Fresh(nxt, 1), -1), SOp("W", Fresh(nxt, 1), 0), SOp("Cancel", <<>>, -1)}
    [] c.kind = "line"    -> {SOp("W", ch, -1) : ch \in LineChunks}
    [] c.kind = "mcloser" -> {SOp("Close", <<>>, -1)}
    [] c.kind = "mflusher" -> {SOp("Flush", <<>>, -1)}
    [] c.kind = "fcloser" -> {SOp("Close", <<>>, -1)}

Init == /\ cfg \in Cases /\ s = SInit(cfg) /\ nxt = 1 /\ hist = <<>> /\ obs = <<>>

Do(o) == LET r == SApply(cfg, s, o)
         IN  /\ s' = r.s /\ obs' = Append(obs, r.o) /\ hist' = Append(hist, o)
             /\ nxt' = nxt + Len(o.data) /\ UNCHANGED cfg

\* one action per exported method
Write  == \E o \in {x \in OpsOf(cfg) : x.op = "W"} : Do(o)
Cancel == \E o \in {x \in OpsOf(cfg) : x.op = "Cancel"} : Do(o)
Shut   == \E o \in {x \in OpsOf(cfg) : x.op = "Shut"} : Do(o)
Close  == \E o \in {x \in OpsOf(cfg) : x.op = "Close"} : Do(o)
Flush  == \E o \in {x \in OpsOf(cfg) : x.op = "Flush"} : Do(o)

Next == Len(hist) < DepthOf(cfg) /\ (Write \/ Cancel \/ Shut \/ Close \/ Flush)
Spec == Init /\ [][Next]_vars

\* the machines honour their contracts
InvContract == Contract(cfg, hist, obs)
\* every helper calls the downstream writer at most once per operation
InvOneCall == \A j \in 1..Len(obs) : Len(obs[j].ds) <= 1

Export == Len(hist) = DepthOf(cfg) =>
  PrintT(<<"BEHAVIOUR", ToJson([cfg |-> cfg, src |-> "seq", ops |-> [i \in 1..Len(hist) |-> STup(hist[i])]])>>)
====
