---- MODULE StreamWriters_Trace ----
(***************************************************************************)
(* C47 binding leg.  Records:                                               *)
(*  ev = "Stream": one complete case on a real helper of pkg/stream.        *)
(*     in  = [cfg, src, ops]: the helper and its parameters, and the        *)
(*           behaviour (exported by StreamWriters.tla, or seeded random);   *)
(*           an operation is <<op, data, a>>;                               *)
(*     res = one observation per operation <<n, err, ds, x>>: what the      *)
(*           real call returned, what the scripted downstream writer was    *)
(*           offered during the call, and the helper-specific extra;        *)
(*     h1, h2 = (hashed) final SHA-256 of the helper's hasher and of the    *)
(*           bytes the downstream writer accepted.                          *)
(*     Verdicts: the helper's CONTRACT (StreamOps) evaluated on the real    *)
(*     run, and exact agreement of every observation with the helper's      *)
(*     machine (C47 is stated as exactness of forwarded bytes, counts,      *)
(*     digests and error reporting).                                        *)
(*  ev = "Race": the ticketed event order (call starts and returns, entries  *)
(*     to and exits from the underlying writer; events[k].t = k) recorded   *)
(*     while one Write was held inside a gated underlying writer and the    *)
(*     calls of in.order (Write / Shut) or a Cancel were started behind it. *)
(*     Judged by the schedule contracts of StreamOps, from tickets only.    *)
(***************************************************************************)
EXTENDS StreamOps, TraceKit

CONSTANT Want

VARIABLES l, fails, nops, done
tvars == <<l, fails, nops, done>>

Kinds == {"cutoff", "hashed", "preempt", "valve", "audit", "concurrent", "line", "mcloser", "mflusher", "fcloser"}

WellFormed(r) ==
  /\ Has(r, "ev") /\ Has(r, "in")
  /\ \/ /\ r.ev = "Stream" /\ Has(r, "res") /\ Has(r, "h1") /\ Has(r, "h2")
        /\ {"cfg", "src", "ops"} \subseteq DOMAIN r.in
        /\ {"kind", "n", "cl"} \subseteq DOMAIN r.in.cfg /\ r.in.cfg.kind \in Kinds
        /\ Len(r.res) = Len(r.in.ops)
        /\ \A j \in 1..Len(r.res) : Len(r.res[j]) = 4 /\ Len(r.in.ops[j]) = 3
     \/ /\ r.ev = "Race" /\ Has(r, "events") /\ Has(r, "complete")
        /\ {"kind", "order", "interval"} \subseteq DOMAIN r.in /\ r.in.kind \in {"valve", "concurrent", "preempt"}
        /\ \A k \in 1..Len(r.events) : {"t", "e", "who", "d", "n", "err"} \subseteq DOMAIN r.events[k] /\ r.events[k].t = k

\* is o an operation the helper of cfg understands (exported behaviours only)
InSpace(cfg, o) ==
  CASE o.op = "W"      -> cfg.kind \in {"cutoff", "hashed", "preempt", "valve", "audit", "concurrent", "line"} /\ o.a < Len(o.data)
    [] o.op = "Cancel" -> cfg.kind = "preempt"
    [] o.op = "Shut"   -> cfg.kind = "valve"
    [] o.op = "Close"  -> cfg.kind \in {"mcloser", "fcloser"}
    [] o.op = "Flush"  -> cfg.kind = "mflusher"
    [] OTHER -> FALSE

\* run the helper's machine along ops; s is its state before operation j
RECURSIVE Exact(_, _, _, _, _)
Exact(cfg, ops, obs, j, s) ==
  IF j > Len(ops) THEN TRUE
  ELSE LET r == SApply(cfg, s, ops[j])
       IN  C47_Exact(r.o, obs[j]) /\ Exact(cfg, ops, obs, j + 1, r.s)

ContractName(kind) ==
  CASE kind = "cutoff" -> "C47_Cutoff" [] kind = "hashed" -> "C47_Hashed" [] kind = "preempt" -> "C47_Preempt"
    [] kind = "valve" -> "C47_Valve" [] kind = "audit" -> "C47_Audit" [] kind = "concurrent" -> "C47_Concurrent"
    [] kind = "line" -> "C47_Line" [] kind = "mcloser" -> "C47_MultiCloser" [] kind = "mflusher" -> "C47_MultiFlusher"
    [] kind = "fcloser" -> "C47_FlushCloser"

StreamFails(i, r) ==
  LET cfg == r.in.cfg
      ops == [j \in 1..Len(r.in.ops) |-> SUnTup(r.in.ops[j])]
      obs == [j \in 1..Len(r.res) |-> SObsOfTup(r.res[j])]
  IN    Chk(Want, i, ContractName(cfg.kind), Contract(cfg, ops, obs))
     \o Chk(Want, i, "C47_Exact", Exact(cfg, ops, obs, 1, SInit(cfg)))
     \o Chk(Want, i, "C47_Digest", cfg.kind = "hashed" => C47_Digest(r.h1, r.h2))
     \o Chk(Want, i, "C47_DriverInSpace", r.in.src = "seq" => \A j \in 1..Len(ops) : InSpace(cfg, ops[j]))

RaceFails(i, r) ==
     Chk(Want, i, "C47_Schedule", C47_Schedule(r.in.kind, r.in.interval, r.events) /\ IntactBytes(r.events))
  \o Chk(Want, i, "C47_ShutDiscards", r.in.kind = "valve" => C47_ShutDiscards(r.events))
  \o Chk(Want, i, "C47_ScheduleCompleted", r.complete)

CaseFails(i, r) ==
  IF ~WellFormed(r) THEN <<Fail(i, "C47_TraceAccepted")>>
  ELSE IF r.ev = "Stream" THEN StreamFails(i, r) ELSE RaceFails(i, r)

TInit == l = 1 /\ fails = <<>> /\ nops = 0 /\ done = FALSE
Step == /\ l <= NRec
        /\ LET r == Trace[l] IN
           /\ fails' = Cap(fails \o CaseFails(l, r))
           /\ nops' = nops + (IF Has(r, "res") THEN Len(r.res) ELSE 0)
        /\ l' = l + 1 /\ UNCHANGED done
Finish == /\ l = NRec + 1 /\ ~done
          /\ WriteResult(l - 1, fails, [stat_ops |-> nops])
          /\ done' = TRUE /\ UNCHANGED <<l, fails, nops>>
TSpec == TInit /\ [][Step \/ Finish]_tvars
====
