CONSTANTS Writers = {"A", "B", "C"} WithShut = FALSE StaleRead = FALSE
SPECIFICATION Spec
INVARIANTS InvSchedule InvMutex
CHECK_DEADLOCK FALSE
