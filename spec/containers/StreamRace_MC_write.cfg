CONSTANTS Writers = {"w1", "w2", "w3"} WithShut = FALSE
SPECIFICATION Spec
INVARIANTS InvSchedule InvMutex
CHECK_DEADLOCK FALSE
