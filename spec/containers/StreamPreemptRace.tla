---- MODULE StreamPreemptRace ----
(***************************************************************************)
(* C47, schedules of the preemptable writer: one goroutine issues NWrites   *)
(* Write calls one after the other, another closes the cancellation channel *)
(* at an arbitrary moment -- in particular while a Write sits inside the    *)
(* underlying writer.  Steps of a Write as in preemptable_writer.go: call,  *)
(* the writeCount / select check, the underlying Write entered and left,    *)
(* return.  Checked on the ticketed event order with the operators of       *)
(* StreamOps that StreamWriters_Trace.tla applies to recorded orders: of    *)
(* the calls that START after Cancel has returned at most Interval reach    *)
(* the underlying writer (a call that passed its check before the channel   *)
(* was closed still goes through -- that is why the bound speaks of calls   *)
(* started, not of bytes arriving, after cancellation).                     *)
(***************************************************************************)
EXTENDS StreamOps, TLC

CONSTANTS Interval, NWrites

VARIABLES wpc,        \* writer: idle called enter inds ret done
          i,          \* number of the current Write call
          cnt,        \* w.writeCount
          cancelled,  \* the channel is closed
          cpc,        \* canceller: idle called closed done
          refusedNow, \* the current call was refused
          events
vars == <<wpc, i, cnt, cancelled, cpc, refusedNow, events>>

Who == <<"W", i>>
E(e, who, err) == [e |-> e, who |-> who, err |-> err]

Init == wpc = "idle" /\ i = 1 /\ cnt = 0 /\ cancelled = FALSE /\ cpc = "idle" /\ refusedNow = FALSE /\ events = <<>>

Call == /\ wpc = "idle" /\ i <= NWrites /\ wpc' = "called" /\ events' = Append(events, E("w-call", Who, ""))
        /\ UNCHANGED <<i, cnt, cancelled, cpc, refusedNow>>
\* if w.writeCount == w.checkInterval { select { case <-w.cancelled: return 0, ErrWritePreempted; default: }; w.writeCount = 0 } else { w.writeCount++ }
Check == /\ wpc = "called"
         /\ IF cnt = Interval
            THEN IF cancelled THEN wpc' = "ret" /\ refusedNow' = TRUE /\ UNCHANGED cnt
                 ELSE wpc' = "enter" /\ cnt' = 0 /\ UNCHANGED refusedNow
            ELSE wpc' = "enter" /\ cnt' = cnt + 1 /\ UNCHANGED refusedNow
         /\ UNCHANGED <<i, cancelled, cpc, events>>
Enter == /\ wpc = "enter" /\ wpc' = "inds" /\ events' = Append(events, E("ds-enter", Who, ""))
         /\ UNCHANGED <<i, cnt, cancelled, cpc, refusedNow>>
Exit == /\ wpc = "inds" /\ wpc' = "ret" /\ events' = Append(events, E("ds-exit", Who, ""))
        /\ UNCHANGED <<i, cnt, cancelled, cpc, refusedNow>>
Return == /\ wpc = "ret" /\ wpc' = "idle" /\ i' = i + 1 /\ refusedNow' = FALSE
          /\ events' = Append(events, E("w-ret", Who, IF refusedNow THEN "preempted" ELSE ""))
          /\ UNCHANGED <<cnt, cancelled, cpc>>

CancelCall == /\ cpc = "idle" /\ cpc' = "called" /\ events' = Append(events, E("cancel-call", "cancel", ""))
              /\ UNCHANGED <<wpc, i, cnt, cancelled, refusedNow>>
Close == cpc = "called" /\ cpc' = "closed" /\ cancelled' = TRUE /\ UNCHANGED <<wpc, i, cnt, refusedNow, events>>
CancelRet == /\ cpc = "closed" /\ cpc' = "done" /\ events' = Append(events, E("cancel-ret", "cancel", ""))
             /\ UNCHANGED <<wpc, i, cnt, cancelled, refusedNow>>

Next == Call \/ Check \/ Enter \/ Exit \/ Return \/ CancelCall \/ Close \/ CancelRet
Spec == Init /\ [][Next]_vars

InvSchedule == C47_Schedule("preempt", Interval, events)
====
