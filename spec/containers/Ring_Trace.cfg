CONSTANT Want = {"C26_FifoBytes", "C26_Counts", "C26_FullEmpty", "C26_DriverInSpace", "C26_TraceAccepted"}
SPECIFICATION TSpec
CHECK_DEADLOCK FALSE
