CONSTANT Want = {"C47_Cutoff", "C47_Hashed", "C47_Preempt", "C47_Valve", "C47_Audit", "C47_Concurrent", "C47_Line", "C47_MultiCloser", "C47_MultiFlusher", "C47_FlushCloser", "C47_Exact", "C47_Digest", "C47_Schedule", "C47_ShutDiscards", "C47_ScheduleCompleted", "C47_DriverInSpace", "C47_TraceAccepted"}
SPECIFICATION TSpec
CHECK_DEADLOCK FALSE
