---- MODULE SyncCycle ----
(***************************************************************************)
(* One synchronization session as a state machine (controller.synchronize): *)
(*   idle --Plan--> planned --Transition(outcomes)--> idle (ancestor saved) *)
(*        --Plan (safety check trips)--> halted                             *)
(* with external edits to either disk while idle.  The reconciliation       *)
(* algorithm is module Reconcile; properties are module SyncProps.          *)
(* Shapes (constant Shape) define the bounded universes of trees.           *)
(***************************************************************************)
EXTENDS SyncProps, Shapes

CONSTANTS Shape,        \* "d1" | "d2" | "d2x" | "spine" | "h1"
          MaxCycles,    \* number of Plan/Transition rounds explored per behaviour
          MaxEdits,     \* external edits per behaviour (history configurations)
          AnyTriple     \* TRUE: start from every (ancestor, alpha, beta) of the shape

SyncTrees == SyncTreesOf(Shape)
AllTrees == AllTreesOf(Shape)

VARIABLES phase, mode, anc, alpha, beta, plan, cycles, edits
vars == <<phase, mode, anc, alpha, beta, plan, cycles, edits>>

Init == /\ phase = "idle" /\ mode \in Modes /\ plan = Empty /\ cycles = 0 /\ edits = 0
        /\ anc \in SyncTrees
        /\ IF AnyTriple THEN alpha = Nil /\ beta = Nil   \* chosen by PickTriple so that workers share the enumeration
           ELSE alpha = anc /\ beta = anc

\* exhaustive one-cycle configuration: choose the endpoint contents
PickTriple == /\ AnyTriple /\ phase = "idle" /\ cycles = 0 /\ edits = 0
              /\ alpha' \in AllTrees /\ beta' \in AllTrees
              /\ plan' = Reconcile(anc, alpha', beta', mode)
              /\ phase' = "planned" /\ edits' = 1
              /\ UNCHANGED <<mode, anc, cycles>>

\* an external process replaces the content at the root or at a child
EditTargets(X) == {<<>>} \cup {<<n>> : n \in Names}
ExternalEdit ==
  /\ ~AnyTriple /\ phase = "idle" /\ edits < MaxEdits
  /\ \E s \in {"alpha", "beta"}, p \in EditTargets(alpha), v \in AllTrees :
       LET X == IF s = "alpha" THEN alpha ELSE beta
           X2 == IF p = <<>> THEN v
                 ELSE IF X.k = "dir" /\ v.k # "dir" THEN SetAt(X, p, v) ELSE X
       IN /\ X2 # X /\ X2 \in AllTrees
          /\ IF s = "alpha" THEN alpha' = X2 /\ beta' = beta ELSE beta' = X2 /\ alpha' = alpha
  /\ edits' = edits + 1
  /\ UNCHANGED <<phase, mode, anc, plan, cycles>>

\* controller safety checks (safety.go oneEndpointEmptiedRoot; root deletion / type change)
IsRootDeletion(c) == c.path = <<>> /\ c.old # Nil /\ c.new = Nil
IsRootTypeChange(c) == c.path = <<>> /\ c.old # Nil /\ c.new # Nil /\ c.old.k # c.new.k
EmptiedRoot(a, x, y) ==
  /\ a.k = "dir" /\ Cardinality(DOMAIN a.c) >= 2
  /\ ((x.k = "dir" /\ DOMAIN x.c = {} /\ y.k = "dir" /\ DOMAIN y.c # {})
      \/ (y.k = "dir" /\ DOMAIN y.c = {} /\ x.k = "dir" /\ DOMAIN x.c # {}))
ShouldHalt(a, x, y, pl) ==
  \/ EmptiedRoot(a, x, y)
  \/ \E c \in pl.alpha \cup pl.beta : IsRootDeletion(c) \/ IsRootTypeChange(c)

Plan == /\ ~AnyTriple /\ phase = "idle" /\ cycles < MaxCycles
        /\ LET pl == Reconcile(anc, alpha, beta, mode) IN
           /\ plan' = pl
           /\ phase' = IF ShouldHalt(anc, alpha, beta, pl) THEN "halted" ELSE "planned"
        /\ UNCHANGED <<mode, anc, alpha, beta, cycles, edits>>

\* what an endpoint may report for a change: the new value, the old value, or any
\* prefix-closed part of either (partial creation / partial removal), or nothing
\* (Outcomes is defined in SyncProps)

\* Transition: every change gets some outcome; the disk follows it; the ancestor records it
OutcomeFns(cs) == {f \in [cs -> UNION {Outcomes(c) : c \in cs}] : \A c \in cs : f[c] \in Outcomes(c)}
ApplyOutcomes(X, cs, f) == ApplySeq(X, [i \in 1..Len(SetToSeq(cs)) |->
                                        LET c == SetToSeq(cs)[i] IN Chg(c.path, c.old, f[c])])
Transition ==
  /\ ~AnyTriple /\ phase = "planned"
  /\ \E fa \in OutcomeFns(plan.alpha), fb \in OutcomeFns(plan.beta) :
       /\ alpha' = ApplyOutcomes(alpha, plan.alpha, fa)
       /\ beta' = ApplyOutcomes(beta, plan.beta, fb)
       /\ anc' = ApplySeq(anc, plan.anc
                               \o [i \in 1..Len(SetToSeq(plan.alpha)) |-> LET c == SetToSeq(plan.alpha)[i] IN Chg(c.path, c.old, fa[c])]
                               \o [i \in 1..Len(SetToSeq(plan.beta)) |-> LET c == SetToSeq(plan.beta)[i] IN Chg(c.path, c.old, fb[c])])
  /\ phase' = "idle" /\ cycles' = cycles + 1 /\ plan' = Empty
  /\ UNCHANGED <<mode, edits>>

Next == PickTriple \/ ExternalEdit \/ Plan \/ Transition
Spec == Init /\ [][Next]_vars

\* ---------------- invariants (planned states) ----------------
Planned == phase = "planned"
InvC01a == Planned => C01_NoLoss(anc, alpha, beta, mode, plan)
InvC01b == Planned => C01_BothChangedConflict(anc, alpha, beta, mode, plan)
InvC02 == Planned => /\ C02_AlphaUntouched(anc, alpha, beta, mode, plan)
                     /\ C02_BetaSafe(anc, alpha, beta, mode, plan)
                     /\ C02_AlphaSafe(anc, alpha, beta, mode, plan)
InvC03 == Planned => C03_UnsyncUntouched(anc, alpha, beta, mode, plan) /\ OldIsCurrent(alpha, beta, plan)
InvC04 == Planned => LET a2 == Anc2(anc, plan)
                         x2 == Alpha2(alpha, plan)
                         y2 == Beta2(beta, plan)
                     IN a2 # Err /\ x2 # Err /\ y2 # Err
                        /\ C04_Fixpoint(Reconcile(a2, x2, y2, mode))
                        /\ C04_Converged(x2, y2, mode, plan)
InvC05ideal == Planned => C05_IdealValid(anc, plan)
InvC06 == Planned => /\ C06_Disjoint(plan, Cardinality(plan.alpha), Cardinality(plan.beta), Cardinality(plan.conf))
                     /\ C06_ConflictWF(alpha, beta, plan)
\* history configurations: the saved ancestor is always valid (C05) and disks stay in the universe
InvC05hist == anc # Err /\ ValidSync(anc) /\ alpha # Err /\ beta # Err
\* C11: a halted session changes nothing (no action is enabled from "halted")
InvC11 == (phase = "planned") => ~ShouldHalt(anc, alpha, beta, plan)
\* C01 on histories: Transition never destroys content that differs from the ancestor
C01_DiskPreserved ==
  [][(phase = "planned" /\ phase' = "idle" /\ mode = "tws") =>
       \A s \in {"alpha", "beta"} :
         LET X == IF s = "alpha" THEN alpha ELSE beta
             X2 == IF s = "alpha" THEN alpha' ELSE beta'
         IN \A p \in Nodes(X) : (At(X, p).k \in {"file", "link"} /\ ~ShallowEq(At(X, p), At(X2, p)))
                                   => ShallowEq(At(X, p), At(anc, p))]_vars
====
