---- MODULE SyncCycle_Trace ----
(***************************************************************************)
(* Trace validation for the synchronization core.  Each record of           *)
(* trace.ndjson is one real call sequence on pkg/synchronization/core       *)
(* (inputs supplied, values returned).  The step relation is permissive     *)
(* (any output is consumed); the property operators of SyncProps judge the  *)
(* real outputs.  Exact agreement with the transcription (Reconcile) is     *)
(* counted as conformance drift only.                                       *)
(***************************************************************************)
EXTENDS SyncProps, Shapes, TraceKit

CONSTANT Want      \* names of the invariants this check evaluates

VARIABLES l, fails, drift, inshape, depdrift, done
tvars == <<l, fails, drift, inshape, depdrift, done>>

PlanOf(o) == [anc |-> o.anc, alpha |-> Rng(o.alpha), beta |-> Rng(o.beta),
              conf |-> {[root |-> k.root, ac |-> Rng(k.ac), bc |-> Rng(k.bc)] : k \in Rng(o.conf)}]

InShape(r) == r.shape # "rand" =>
   IF r.ev = "Algebra" THEN TRUE
   ELSE IF r.ev = "ExecCycle" THEN r.in.anc \in SyncTreesOf(r.shape) /\ r.in.p \in SyncTreesOf(r.shape)
   ELSE r.in.anc \in SyncTreesOf(r.shape) /\ r.in.alpha \in AllTreesOf(r.shape) /\ r.in.beta \in AllTreesOf(r.shape)

SamePlan(p1, p2) == p1.alpha = p2.alpha /\ p1.beta = p2.beta /\ p1.conf = p2.conf /\ Rng(p1.anc) = Rng(p2.anc)

CycleFails(i, r) ==
  LET a == r.in.anc  x == r.in.alpha  y == r.in.beta  m == r.in.mode
      pl == PlanOf(r.plan)
      pl2 == PlanOf(r.plan2)
  IN   Chk(Want, i, "C01_NoLoss", C01_NoLoss(a, x, y, m, pl))
    \o Chk(Want, i, "C01_BothChangedConflict", C01_BothChangedConflict(a, x, y, m, pl))
    \o Chk(Want, i, "C02_AlphaUntouched", C02_AlphaUntouched(a, x, y, m, pl))
    \o Chk(Want, i, "C02_BetaSafe", C02_BetaSafe(a, x, y, m, pl))
    \o Chk(Want, i, "C02_AlphaSafe", C02_AlphaSafe(a, x, y, m, pl))
    \o Chk(Want, i, "C03_UnsyncUntouched", C03_UnsyncUntouched(a, x, y, m, pl))
    \o Chk(Want, i, "C04_ApplyOK", r.applied.err = "" /\ r.applied.valid)
    \o Chk(Want, i, "C04_Fixpoint", r.applied.err = "" => C04_Fixpoint(pl2))
    \o Chk(Want, i, "C04_Converged", r.applied.err = "" => C04_Converged(r.applied.alpha2, r.applied.beta2, m, pl))
    \o Chk(Want, i, "C06_Disjoint", C06_Disjoint(pl, Len(r.plan.alpha), Len(r.plan.beta), Len(r.plan.conf)))
    \o Chk(Want, i, "C06_ConflictWF", C06_ConflictWF(x, y, pl))
    \o Chk(Want, i, "C06_ConflictListsWF", C06_ConflictListsWF(r.plan.conf))

IsOutcome(o, c) == IsSubTree(o, c.old) \/ IsSubTree(o, c.new)
OutcomeFails(i, r) ==
  LET pl == PlanOf(r.plan) IN
       Chk(Want, i, "DriverOutcomesInSpec",
           /\ \A j \in DOMAIN r.plan.alpha : IsOutcome(r.outs.alpha[j], r.plan.alpha[j])
           /\ \A j \in DOMAIN r.plan.beta : IsOutcome(r.outs.beta[j], r.plan.beta[j]))
    \o Chk(Want, i, "C05_ApplySucceeds", r.err = "")
    \o Chk(Want, i, "C05_Valid", r.err = "" => r.valid /\ ValidSync(r.anc2))
    \o Chk(Want, i, "C05_Faithful", r.err = "" => C05_Faithful(r.anc2, r.plan.alpha, r.plan.beta, r.outs.alpha, r.outs.beta))

AlgebraFails(i, r) ==
  LET a == r.in.a  b == r.in.b IN
       Chk(Want, i, "C07_ApplyDiff", r.applyErr = "" /\ r.applied = b)
    \o Chk(Want, i, "C07_SelfDiffEmpty", r.selfdiff = <<>> /\ (a = b => r.diff = <<>>))
    \o Chk(Want, i, "C07_DiffExact", Rng(r.diff) = Diff(<<>>, a, b) /\ Len(r.diff) = Cardinality(Rng(r.diff)))
    \o Chk(Want, i, "C07_Filter", r.sync = Sync(a))
    \o Chk(Want, i, "C07_Count", r.count = Count(a))
    \o Chk(Want, i, "C07_CopyEqual", /\ r.copies.deep = a /\ r.copies.leaves = a /\ r.copies.shallow = a
                                     /\ r.copies.slim = Slim(a) /\ r.eqSelf /\ (r.eqOther <=> a = b))
    \o Chk(Want, i, "C07_CopyIndependent", /\ r.after.deep = a /\ r.after.leaves = a
                                           /\ r.after.shallow = a /\ r.after.slim = Slim(a))

ExecFails(i, r) ==
  LET pl == PlanOf(r.plan)
      cs == IF r.in.pside = "alpha" THEN pl.alpha ELSE pl.beta
  IN   Chk(Want, i, "C18_ExecStable", C18_ExecStable(r.in.anc, r.in.p, r.nprop, cs))
    \o Chk(Want, i, "C18_SourcesOnly", C18_SourcesOnly(r.in.anc, r.in.p, r.nprop))

RecFails(i, r) ==
  CASE r.ev = "Cycle" -> CycleFails(i, r)
    [] r.ev = "Outcome" -> OutcomeFails(i, r)
    [] r.ev = "Algebra" -> AlgebraFails(i, r)
    [] r.ev = "ExecCycle" -> ExecFails(i, r)
    [] OTHER -> <<Fail(i, "TraceAccepted")>>

Drifts(r) == IF "Conforms" \in Want /\ r.ev = "Cycle"
             THEN (IF SamePlan(PlanOf(r.plan), Reconcile(r.in.anc, r.in.alpha, r.in.beta, r.in.mode)) THEN 0 ELSE 1)
             ELSE IF "Conforms" \in Want /\ r.ev = "ExecCycle"
             THEN (IF r.nprop = PropExec(r.in.anc, r.in.p, r.in.n) THEN 0 ELSE 1)
             ELSE 0

\* conformance of TransitionDependencies (what the controller asks the endpoints to stage)
DepDrifts(r) == IF "Conforms" \in Want /\ r.ev = "Cycle" /\ Has(r, "deps")
                THEN (IF /\ Rng(r.deps.alpha) = Deps(Rng(r.plan.alpha)) /\ Len(r.deps.alpha) = Cardinality(Rng(r.deps.alpha))
                         /\ Rng(r.deps.beta) = Deps(Rng(r.plan.beta)) /\ Len(r.deps.beta) = Cardinality(Rng(r.deps.beta))
                      THEN 0 ELSE 1)
                ELSE 0

TInit == l = 1 /\ fails = <<>> /\ drift = 0 /\ inshape = 0 /\ depdrift = 0 /\ done = FALSE
Step == /\ l <= NRec
        /\ LET r == Trace[l] IN
           /\ fails' = Cap(fails \o RecFails(l, r) \o (IF InShape(r) THEN <<>> ELSE <<Fail(l, "DriverInShape")>>))
           /\ drift' = drift + Drifts(r)
           /\ depdrift' = depdrift + DepDrifts(r)
           /\ inshape' = inshape + (IF r.shape # "rand" THEN 1 ELSE 0)
        /\ l' = l + 1 /\ UNCHANGED done
Finish == /\ l = NRec + 1 /\ ~done
          /\ WriteResult(l - 1, fails, [stat_drift |-> drift, stat_inshape |-> inshape, stat_deps_drift |-> depdrift])
          /\ done' = TRUE /\ UNCHANGED <<l, fails, drift, inshape, depdrift>>
TNext == Step \/ Finish
TSpec == TInit /\ [][TNext]_tvars
====
