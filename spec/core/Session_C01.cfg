CONSTANT Want = {"C01_HistPreserved", "C01_NoLoss", "C01_DiskPreserved", "C01_BothChangedConflict"}
SPECIFICATION TSpec
CHECK_DEADLOCK FALSE
