CONSTANT Want = {"C06_Disjoint", "C06_ConflictWF", "C06_ConflictListsWF"}
SPECIFICATION TSpec
CHECK_DEADLOCK FALSE
