CONSTANT Want = {"C06_Disjoint", "C06_ConflictWF"}
SPECIFICATION TSpec
CHECK_DEADLOCK FALSE
