CONSTANT Shape = "d1"
SPECIFICATION Spec
INVARIANTS ApplyDiff SelfDiff DiffMinimal FilterIdem FilterExact CountExact SubTreeTest
CHECK_DEADLOCK FALSE
