CONSTANT Want = {"C03_UnsyncUntouched", "Conforms"}
SPECIFICATION TSpec
CHECK_DEADLOCK FALSE
