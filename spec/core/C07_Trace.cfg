CONSTANT Want = {"C07_ApplyDiff", "C07_SelfDiffEmpty", "C07_DiffExact", "C07_Filter", "C07_Count", "C07_CopyEqual", "C07_CopyIndependent"}
SPECIFICATION TSpec
CHECK_DEADLOCK FALSE
