CONSTANT Want = {"C18_ExecStable"}
SPECIFICATION TSpec
CHECK_DEADLOCK FALSE
