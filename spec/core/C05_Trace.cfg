CONSTANT Want = {"DriverOutcomesInSpec", "C05_ApplySucceeds", "C05_Valid", "C05_Faithful"}
SPECIFICATION TSpec
CHECK_DEADLOCK FALSE
