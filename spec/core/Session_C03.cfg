CONSTANT Want = {"C03_IgnoredDiskPreserved", "C03_UnsyncUntouched", "C03_UnsyncDiskPreserved"}
SPECIFICATION TSpec
CHECK_DEADLOCK FALSE
