---- MODULE Algebra_MC ----
(* C07 on the model: the tree algebra of Entries is self-consistent over every pair of the shape. *)
EXTENDS SyncProps, Shapes
CONSTANT Shape
VARIABLES a, b, picked
Univ == AllTreesOf(Shape) \cup {D([n \in {"a"} |-> Ph(c)]) : c \in PartialFns({"c"}, {F1, U})}
Init == a \in Univ /\ b = Nil /\ picked = FALSE
Next == ~picked /\ b' \in Univ /\ picked' = TRUE /\ UNCHANGED a
Spec == Init /\ [][Next]_<<a, b, picked>>
ApplyDiff == picked => ApplySeq(a, SetToSeq(Diff(<<>>, a, b))) = b
SelfDiff == Diff(<<>>, a, a) = {}
DiffMinimal == picked => (Diff(<<>>, a, b) = {} <=> a = b)
FilterIdem == Sync(Sync(a)) = Sync(a) /\ ValidSync(Sync(a))
FilterExact == \A q \in Nodes(a) : (q \in Nodes(Sync(a))) <=> (\A i \in 0..Len(q) : IsSyncKind(At(a, SubSeq(q, 1, i))))
SubTreeTest == \A s \in Univ : IsSubTree(s, a) <=> s \in SubTrees(a)
CountExact == Count(a) = Cardinality(Nodes(Sync(a)))
====
