CONSTANTS Shape = "h1" MaxCycles = 4 MaxEdits = 6 AnyTriple = FALSE
SPECIFICATION Spec
INVARIANTS InvC01a InvC02 InvC03 InvC06 InvC05hist InvC11
PROPERTY C01_DiskPreserved
CHECK_DEADLOCK FALSE
