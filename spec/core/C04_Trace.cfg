CONSTANT Want = {"C04_ApplyOK", "C04_Fixpoint", "C04_Converged"}
SPECIFICATION TSpec
CHECK_DEADLOCK FALSE
