CONSTANT Want = {"C05_CycleCompletes", "C04_Fixpoint", "C04_Converged"}
SPECIFICATION TSpec
CHECK_DEADLOCK FALSE
