CONSTANT Want = {"C05_CycleCompletes", "C05_Valid", "C05_Faithful", "C05_ArchiveMatchesMemory"}
SPECIFICATION TSpec
CHECK_DEADLOCK FALSE
