CONSTANT Shape = "d2x"
SPECIFICATION Spec
INVARIANTS ExecStable SourcesOnly
CHECK_DEADLOCK FALSE
