CONSTANT Shape = "d1"
SPECIFICATION Spec
INVARIANTS ExecStable SourcesOnly
CHECK_DEADLOCK FALSE
