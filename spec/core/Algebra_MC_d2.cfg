CONSTANT Shape = "d2"
SPECIFICATION Spec
INVARIANTS ApplyDiff SelfDiff DiffMinimal FilterIdem FilterExact CountExact SubTreeTest
CHECK_DEADLOCK FALSE
