CONSTANTS Shape = "n2" MaxCycles = 0 MaxEdits = 0 AnyTriple = TRUE
SPECIFICATION Spec
INVARIANTS InvC01a InvC01b InvC02 InvC03 InvC04 InvC05ideal InvC06
CHECK_DEADLOCK FALSE
