CONSTANT Want = {"C01_NoLoss", "C01_BothChangedConflict", "Conforms"}
SPECIFICATION TSpec
CHECK_DEADLOCK FALSE
