CONSTANT Want = {"C06_Disjoint", "C06_OneTransitionPerCycle"}
SPECIFICATION TSpec
CHECK_DEADLOCK FALSE
