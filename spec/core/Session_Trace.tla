---- MODULE Session_Trace ----
(***************************************************************************)
(* Trace validation of real synchronization sessions.  The records come     *)
(* from harness/cmd/session: the real synchronization.Manager/controller    *)
(* drives two journaling in-memory endpoints; every Scan (with the ancestor *)
(* the controller handed over), every Transition request with its reported  *)
(* results and the simulated disk before/after, and the archive file, state *)
(* and conflicts after each flushed cycle are recorded.  The state `st`     *)
(* follows the controller's cycle (SyncCycle: scan -> plan -> transition -> *)
(* save); the SyncProps operators judge what the controller asked for.      *)
(***************************************************************************)
EXTENDS SyncProps, TraceKit

CONSTANT Want
VARIABLES l, fails, st, done
tvars == <<l, fails, st, done>>

St0 == [mode |-> "tws", anc |-> Nil, last |-> Nil, snap |-> [alpha |-> Nil, beta |-> Nil],
        pres |-> [alpha |-> TRUE, beta |-> TRUE],
        tr |-> [alpha |-> <<>>, beta |-> <<>>], res |-> [alpha |-> <<>>, beta |-> <<>>],
        saw |-> FALSE, quiescent |-> FALSE, cycles |-> 0, agreed |-> Nil, ign |-> {}, cap |-> 0]

BothPreserve(s) == s.pres.alpha /\ s.pres.beta
Other(side) == IF side = "alpha" THEN "beta" ELSE "alpha"

\* content on the simulated disk that differs after the transition was unchanged since the last synchronization
DiskPreserved(anc, before, after) ==
  \A p \in Nodes(before) :
     (At(before, p).k \in {"file", "link"} /\ ~ShallowEq(At(before, p), At(after, p)))
        => ShallowEq(At(before, p), At(anc, p))
\* untracked / problematic content and everything beneath it is exactly where and what it was
UnsyncDiskPreserved(before, after) ==
  \A p \in Nodes(before) : IsUnsyncKind(At(before, p)) => At(after, p) = At(before, p)

\* The last state both endpoints agreed on ("last successful synchronization"), maintained from the
\* observed disks only, independently of the reconciliation algorithm and of the controller's archive:
\* where the disks agree after a cycle that is the new agreed content; where both are absent it is
\* absent; where they disagree the previously agreed content stands.
RECURSIVE Overlay(_, _, _)
Overlay(prev, a, b) ==
  IF IsSyncKind(a) /\ IsSyncKind(b) /\ ShallowEq(a, b) THEN
     IF a.k # "dir" THEN a
     ELSE LET pv == IF prev.k = "dir" THEN prev ELSE Nil
              names == ChildNames(a) \cup ChildNames(b) \cup ChildNames(pv)
              sub == [n \in names |-> Overlay(Child(pv, n), Child(a, n), Child(b, n))]
          IN D([n \in {m \in names : sub[m] # Nil} |-> sub[n]])
  ELSE IF a.k \in {"nil", "untracked"} /\ b.k \in {"nil", "untracked"} THEN Nil
  ELSE prev

\* content under an ignored (anchored) path is exactly where and what it was
IgnoredDiskPreserved(ign, before, after) ==
  \A p \in Nodes(before) : (\E g \in ign : IsPrefix(g, p)) => At(after, p) = At(before, p)

ConfPlan(s, roots) == [anc |-> <<>>, alpha |-> Rng(s.tr.alpha), beta |-> Rng(s.tr.beta),
                       conf |-> {[root |-> roots[i]] : i \in DOMAIN roots}]

TransFails(i, s, r) ==
  LET cs == Rng(r.trans)
      side == r.side
      protected == (s.mode = "tws") \/ (s.mode = "ows" /\ side = "beta") \/ (s.mode = "twr" /\ side = "alpha")
      inv01 == IF s.mode = "tws" THEN "C01_NoLoss" ELSE IF side = "beta" THEN "C02_BetaSafe" ELSE "C02_AlphaSafe"
  IN   Chk(Want, i, inv01, (protected /\ BothPreserve(s)) => NoLossOn(s.anc, cs))
    \o Chk(Want, i, "C01_DiskPreserved", (s.mode = "tws" /\ BothPreserve(s)) => DiskPreserved(s.anc, r.before, r.after))
    \o Chk(Want, i, "C01_HistPreserved", (s.mode = "tws" /\ BothPreserve(s)) => DiskPreserved(s.agreed, r.before, r.after))
    \o Chk(Want, i, "C02_HistSafe", (protected /\ s.mode # "tws" /\ BothPreserve(s)) => DiskPreserved(s.agreed, r.before, r.after))
    \o Chk(Want, i, "C02_AlphaUntouched", (s.mode \in {"ows", "owr"} /\ side = "alpha") => (r.trans = <<>> /\ r.before = r.after))
    \o Chk(Want, i, "C02_DiskSafe", (protected /\ s.mode # "tws" /\ BothPreserve(s)) => DiskPreserved(s.anc, r.before, r.after))
    \o Chk(Want, i, "C03_UnsyncUntouched", UnsyncUntouchedOn(cs, s.snap[side]))
    \o Chk(Want, i, "C03_UnsyncDiskPreserved", UnsyncDiskPreserved(r.before, r.after))
    \o Chk(Want, i, "C03_IgnoredDiskPreserved", IgnoredDiskPreserved(s.ign, r.before, r.after))
    \o Chk(Want, i, "C18_ExecStable",
           (s.pres[side] /\ ~s.pres[Other(side)]) => C18_ExecStable(s.anc, s.snap[side], s.snap[Other(side)], cs))
    \o Chk(Want, i, "C06_OneTransitionPerCycle", s.tr[side] = <<>>)

AllPaths(s, roots) == [k \in {"a", "b", "k"} |->
   IF k = "a" THEN {c.path : c \in Rng(s.tr.alpha)} ELSE IF k = "b" THEN {c.path : c \in Rng(s.tr.beta)}
   ELSE {roots[j] : j \in DOMAIN roots}]

SavedFails(i, s, r) ==
  LET ok == r.flushErr = "" /\ r.archiveErr = ""
      trunc == r.status # "Watching"
      T == AllPaths(s, r.conflictRoots)
      faithful(side) == \A j \in DOMAIN s.tr[side] : At(r.archive, s.tr[side][j].path) = s.res[side][j]
  IN   \* (an endpoint with an entry-count cap legitimately refuses to stage past it, which ends the cycle)
       Chk(Want, i, "C05_CycleCompletes", s.cap = 0 => (ok /\ r.lastError = ""))
    \o Chk(Want, i, "C05_Valid", r.archiveErr = "" => ValidSync(r.archive))
    \o Chk(Want, i, "C05_Faithful", ok => faithful("alpha") /\ faithful("beta"))
    \o Chk(Want, i, "C04_Fixpoint", (ok /\ s.quiescent) => (~s.saw /\ r.archive = s.last))
    \o Chk(Want, i, "C04_Converged",
           (ok /\ r.exact /\ ~trunc /\ BothPreserve(s)) => C04_Converged(r.alpha, r.beta, s.mode, ConfPlan(s, r.conflictRoots)))
    \o Chk(Want, i, "C06_Disjoint",
           (ok /\ ~trunc) =>
             /\ Len(s.tr.alpha) = Cardinality(T["a"]) /\ Len(s.tr.beta) = Cardinality(T["b"])
             /\ Len(r.conflictRoots) = Cardinality(T["k"])
             /\ \A k1, k2 \in {"a", "b", "k"} : \A p \in T[k1], q \in T[k2] : (k1 # k2 \/ p # q) => ~IsPrefix(p, q))
    \o Chk(Want, i, "C01_BothChangedConflict",
           (ok /\ ~trunc /\ BothPreserve(s)) =>
              C01_BothChangedConflict(s.anc, s.snap.alpha, s.snap.beta, s.mode, ConfPlan(s, r.conflictRoots)))

ScanFails(i, s, r) ==
  Chk(Want, i, "C05_ArchiveMatchesMemory", r.anc = s.last)

Apply(s, r) ==
  CASE r.ev = "Begin" -> [St0 EXCEPT !.mode = r.in.mode, !.pres = [alpha |-> r.in.presA, beta |-> r.in.presB],
                                     !.ign = IF Has(r, "ign") THEN Rng(r.ign) ELSE {},
                                     !.cap = IF Has(r.in, "capBeta") THEN r.in.capBeta ELSE 0]
    [] r.ev = "Edit" -> [s EXCEPT !.quiescent = r.quiescent, !.saw = FALSE,
                                  !.tr = [alpha |-> <<>>, beta |-> <<>>], !.res = [alpha |-> <<>>, beta |-> <<>>]]
    [] r.ev = "Scan" -> (IF s.saw
                         THEN [s EXCEPT !.saw = FALSE, !.tr = [alpha |-> <<>>, beta |-> <<>>], !.res = [alpha |-> <<>>, beta |-> <<>>],
                                        !.snap[r.side] = r.snap, !.anc = r.anc]
                         ELSE [s EXCEPT !.snap[r.side] = r.snap, !.anc = r.anc])
    [] r.ev = "Trans" -> [s EXCEPT !.tr[r.side] = r.trans, !.res[r.side] = r.results, !.saw = TRUE]
    [] r.ev = "Saved" -> [s EXCEPT !.last = r.archive, !.cycles = @ + 1, !.agreed = Overlay(@, r.alpha, r.beta)]
    [] OTHER -> s

RecFails(i, s, r) ==
  CASE r.ev = "Trans" -> TransFails(i, s, r)
    [] r.ev = "Saved" -> SavedFails(i, s, r)
    [] r.ev = "Scan" -> ScanFails(i, s, r)
    [] r.ev = "Misconnect" -> <<Fail(i, "C02_EndpointRoles")>>
    [] r.ev \in {"Begin", "Edit", "Stage"} -> <<>>
    [] r.ev \in {"ScanError", "TransError", "CreateError"} -> (IF s.cap = 0 THEN <<Fail(i, "C05_CycleCompletes")>> ELSE <<>>)
    [] OTHER -> <<Fail(i, "TraceAccepted")>>

TInit == l = 1 /\ fails = <<>> /\ st = St0 /\ done = FALSE
Step == /\ l <= NRec
        /\ LET r == Trace[l] IN
           /\ fails' = Cap(fails \o RecFails(l, st, r))
           /\ st' = Apply(st, r)
        /\ l' = l + 1 /\ UNCHANGED done
Finish == /\ l = NRec + 1 /\ ~done
          /\ WriteResult(l - 1, fails, [stat_cycles |-> st.cycles])
          /\ done' = TRUE /\ UNCHANGED <<l, fails, st>>
TSpec == TInit /\ [][Step \/ Finish]_tvars
====
