---- MODULE Shapes ----
(* Bounded universes of trees shared by SyncCycle (model) and SyncCycle_Trace (real records). *)
EXTENDS Entries

F1 == F("01", FALSE)
F2 == F("02", FALSE)
F1x == F("01", TRUE)
L1 == L("t1")
Pb == P("boom")
Names == {"a", "b"}
SyncLeaves == {F1, F2, F1x, L1}
AllLeaves == SyncLeaves \cup {U, Pb}

Sync_d1 == TreesOf(SyncLeaves, Names, 1) \cup {Nil}
All_d1 == TreesOf(AllLeaves, Names, 1) \cup {Nil}
Sync_d2 == {D(c) : c \in PartialFns(Names, TreesOf({F1, F2}, {"c"}, 1))} \cup {Nil, F1}
All_d2 == {D(c) : c \in PartialFns(Names, TreesOf({F1, F2, U, Pb}, {"c"}, 1))} \cup {Nil, F1, U, Pb}
Sync_d2x == {D(c) : c \in PartialFns(Names, TreesOf({F1, F1x, L1}, {"c"}, 1))} \cup {Nil, L1}
All_d2x == {D(c) : c \in PartialFns(Names, TreesOf({F1, F1x, L1, U}, {"c"}, 1))} \cup {Nil, L1, U}
Sync_spine == TreesOf({F1, F2, L1}, {"a"}, 3) \cup {Nil}
All_spine == TreesOf({F1, F2, L1, U, Pb}, {"a"}, 3) \cup {Nil}
\* two levels on a single spine of names (non-root directories, cheap enough for the quick tier)
Sync_n2 == {D(c) : c \in PartialFns({"a"}, TreesOf({F1, F2}, {"c"}, 1))} \cup {Nil}
All_n2 == {D(c) : c \in PartialFns({"a"}, TreesOf({F1, F2, U, Pb}, {"c"}, 1))} \cup {Nil}
Sync_h1 == TreesOf({F1, F2}, Names, 1) \cup {Nil}
All_h1 == TreesOf({F1, F2, U}, Names, 1) \cup {Nil}

SyncTreesOf(s) == CASE s = "d1" -> Sync_d1 [] s = "d2" -> Sync_d2 [] s = "d2x" -> Sync_d2x
                    [] s = "spine" -> Sync_spine [] s = "h1" -> Sync_h1 [] s = "n2" -> Sync_n2
AllTreesOf(s) == CASE s = "d1" -> All_d1 [] s = "d2" -> All_d2 [] s = "d2x" -> All_d2x
                   [] s = "spine" -> All_spine [] s = "h1" -> All_h1 [] s = "n2" -> All_n2
====
