CONSTANT Want = {"C02_HistSafe", "C02_AlphaUntouched", "C02_BetaSafe", "C02_AlphaSafe", "C02_DiskSafe", "C02_EndpointRoles"}
SPECIFICATION TSpec
CHECK_DEADLOCK FALSE
