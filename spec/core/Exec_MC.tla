---- MODULE Exec_MC ----
(* C18 on the model: one endpoint does not preserve executability; its scan reports x = FALSE
   everywhere, the controller propagates executability into it (PropExec) and reconciles. *)
EXTENDS SyncProps, Shapes
CONSTANT Shape
VARIABLES mode, pside, anc, p, n, picked
vars == <<mode, pside, anc, p, n, picked>>
RECURSIVE Strip(_)
Strip(e) == IF e.k = "file" THEN F(e.d, FALSE)
            ELSE IF e.k = "dir" THEN D([m \in DOMAIN e.c |-> Strip(e.c[m])]) ELSE e
Init == mode \in Modes /\ pside \in {"alpha", "beta"} /\ anc \in SyncTreesOf(Shape) /\ p = Nil /\ n = Nil /\ picked = FALSE
Next == ~picked /\ picked' = TRUE /\ p' \in SyncTreesOf(Shape) /\ n' \in {Strip(e) : e \in SyncTreesOf(Shape)}
        /\ UNCHANGED <<mode, pside, anc>>
Spec == Init /\ [][Next]_vars
NProp == PropExec(anc, p, n)
Plan == IF pside = "alpha" THEN Reconcile(anc, p, NProp, mode) ELSE Reconcile(anc, NProp, p, mode)
PChanges == IF pside = "alpha" THEN Plan.alpha ELSE Plan.beta
ExecStable == picked => C18_ExecStable(anc, p, NProp, PChanges)
SourcesOnly == picked => C18_SourcesOnly(anc, p, NProp)
====
