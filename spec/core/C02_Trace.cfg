CONSTANT Want = {"C02_AlphaUntouched", "C02_BetaSafe", "C02_AlphaSafe", "Conforms"}
SPECIFICATION TSpec
CHECK_DEADLOCK FALSE
