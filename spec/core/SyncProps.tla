---- MODULE SyncProps ----
(***************************************************************************)
(* The properties C01-C06 of one reconciliation cycle, as operators over    *)
(* (anc, alpha, beta, mode, plan).  They are evaluated by TLC both on the   *)
(* plan the specification computes (SyncCycle_MC: the predicates do not     *)
(* over-demand) and on plans returned by the real core.Reconcile            *)
(* (SyncCycle_Trace: the code satisfies them).                              *)
(***************************************************************************)
EXTENDS Reconcile

Side(plan, alpha, beta, s) == IF s = "alpha" THEN [cs |-> plan.alpha, X |-> alpha] ELSE [cs |-> plan.beta, X |-> beta]

\* every node a planned change removes or overwrites exists identically in the ancestor
NoLossOn(anc, cs) == \A c \in cs : \A q \in Nodes(c.old) : ShallowEq(At(c.old, q), At(anc, c.path \o q))

\* --- C01 -----------------------------------------------------------------
C01_NoLoss(anc, alpha, beta, mode, plan) ==
  mode = "tws" => NoLossOn(anc, plan.alpha) /\ NoLossOn(anc, plan.beta)

Reached(alpha, beta, p) == \A q \in ProperPrefixes(p) : ShallowEq(At(alpha, q), At(beta, q)) /\ At(alpha, q).k = "dir"
DisagreementRoots(alpha, beta) ==
  {p \in Nodes(alpha) \cup Nodes(beta) :
     /\ Reached(alpha, beta, p) /\ ~ShallowEq(At(alpha, p), At(beta, p))
     /\ At(alpha, p).k # "problem" /\ At(beta, p).k # "problem"
     /\ ~(At(alpha, p).k \in {"nil", "untracked"} /\ At(beta, p).k \in {"nil", "untracked"})}
\* the ancestor as seen at p: wiped below a parent that both sides changed identically
AncAt(anc, alpha, p) ==
  LET RECURSIVE Walk(_, _, _)
      Walk(a, done, rest) ==
        IF rest = <<>> THEN a
        ELSE LET a2 == IF ShallowEq(a, At(alpha, done)) THEN a ELSE Nil
             IN Walk(Child(a2, Head(rest)), Append(done, Head(rest)), Tail(rest))
  IN Walk(anc, <<>>, p)
\* both sides created or modified content at overlapping paths => conflict rooted there
C01_BothChangedConflict(anc, alpha, beta, mode, plan) ==
  mode = "tws" =>
    \A p \in DisagreementRoots(alpha, beta) :
      (/\ NonDel(Diff(p, AncAt(anc, alpha, p), Sync(At(alpha, p)))) # {}
       /\ NonDel(Diff(p, AncAt(anc, alpha, p), Sync(At(beta, p)))) # {})
        => /\ \E k \in plan.conf : k.root = p
           /\ ~\E c \in plan.alpha \cup plan.beta : IsPrefix(c.path, p) \/ IsPrefix(p, c.path)

\* --- C02 -----------------------------------------------------------------
C02_AlphaUntouched(anc, alpha, beta, mode, plan) == mode \in {"ows", "owr"} => plan.alpha = {}
C02_BetaSafe(anc, alpha, beta, mode, plan) == mode = "ows" => NoLossOn(anc, plan.beta)
C02_AlphaSafe(anc, alpha, beta, mode, plan) == mode = "twr" => NoLossOn(anc, plan.alpha)

\* --- C03 -----------------------------------------------------------------
\* No change is planned at, above or below content that is not tracked on that side.
UnsyncUntouchedOn(cs, X) ==
  \A c \in cs :
     /\ Sync(At(X, c.path)) = At(X, c.path)
     /\ \A q \in ProperPrefixes(c.path) : At(X, q).k = "dir"
     /\ Sync(c.old) = c.old /\ Sync(c.new) = c.new
C03_UnsyncUntouched(anc, alpha, beta, mode, plan) ==
  UnsyncUntouchedOn(plan.alpha, alpha) /\ UnsyncUntouchedOn(plan.beta, beta)
\* conformance only (not a verdict): Old is exactly what the endpoint holds
OldIsCurrent(alpha, beta, plan) ==
  /\ \A c \in plan.alpha : c.old = At(alpha, c.path)
  /\ \A c \in plan.beta : c.old = At(beta, c.path)

\* --- C04 -----------------------------------------------------------------
Anc2(anc, plan) == ApplySeq(anc, plan.anc \o SetToSeq(plan.alpha) \o SetToSeq(plan.beta))
Alpha2(alpha, plan) == ApplySeq(alpha, SetToSeq(plan.alpha))
Beta2(beta, plan) == ApplySeq(beta, SetToSeq(plan.beta))
PlanEmpty(p) == p.anc = <<>> /\ p.alpha = {} /\ p.beta = {}
\* given the second plan (computed by the model or by the real code)
C04_Fixpoint(plan2) == PlanEmpty(plan2)
UnderConflict(plan, p) == \E k \in plan.conf : IsPrefix(k.root, p) \/ IsPrefix(p, k.root)
\* a path lies in an area where one side is not tracked (at, above, or below)
UnsyncNear(X, p) == \/ \E q \in ProperPrefixes(p) \cup {p} : IsUnsyncKind(At(X, q))
                    \/ Sync(At(X, p)) # At(X, p)
C04_Converged(alpha2, beta2, mode, plan) ==
  mode \in {"tws", "twr"} =>
    \A p \in Nodes(Sync(alpha2)) \cup Nodes(Sync(beta2)) :
       (~UnderConflict(plan, p) /\ ~UnsyncNear(alpha2, p) /\ ~UnsyncNear(beta2, p))
         => ShallowEq(At(alpha2, p), At(beta2, p))

\* --- C05 (ideal outcomes) -------------------------------------------------
C05_IdealValid(anc, plan) == Anc2(anc, plan) # Err /\ ValidSync(Anc2(anc, plan))

\* --- C06 -----------------------------------------------------------------
Touched(plan) == [s \in {"a", "b", "k"} |->
                    IF s = "a" THEN {c.path : c \in plan.alpha}
                    ELSE IF s = "b" THEN {c.path : c \in plan.beta} ELSE {k.root : k \in plan.conf}]
C06_Disjoint(plan, nAlpha, nBeta, nConf) ==
  LET T == Touched(plan) IN
  /\ nAlpha = Cardinality(T["a"]) /\ nBeta = Cardinality(T["b"]) /\ nConf = Cardinality(T["k"])
  /\ \A s1, s2 \in {"a", "b", "k"} : \A p \in T[s1], q \in T[s2] : (s1 # s2 \/ p # q) => ~IsPrefix(p, q)
C06_ConflictWF(alpha, beta, plan) ==
  \A k \in plan.conf :
     /\ k.ac # {} /\ k.bc # {}
     /\ \A c \in k.ac \cup k.bc : IsPrefix(k.root, c.path)
     /\ ~ShallowEq(At(alpha, k.root), At(beta, k.root))
     \* within one side of a conflict no path is named twice (two different changes) or nested
     /\ \A c1, c2 \in k.ac : c1 # c2 => ~IsPrefix(c1.path, c2.path)
     /\ \A c1, c2 \in k.bc : c1 # c2 => ~IsPrefix(c1.path, c2.path)
\* the same on the real lists (a sequence can name one change twice, which a set cannot show)
C06_ConflictListsWF(confSeq) ==
  \A i \in DOMAIN confSeq : \A side \in {"ac", "bc"} :
     LET q == confSeq[i][side] IN
     \A m, n \in DOMAIN q : m # n => ~IsPrefix(q[m].path, q[n].path)

\* --- C05 (any outcome) ------------------------------------------------------
Outcomes(c) == SubTrees(c.old) \cup SubTrees(c.new)
\* planSeq: changes as sequences (the order in which outcomes were reported)
C05_Faithful(anc2, alphaSeq, betaSeq, outsA, outsB) ==
  /\ \A i \in DOMAIN alphaSeq : At(anc2, alphaSeq[i].path) = outsA[i]
  /\ \A i \in DOMAIN betaSeq : At(anc2, betaSeq[i].path) = outsB[i]

\* --- C07 ------------------------------------------------------------------
\* the model's Apply on a real change list
ApplyReal(base, seq) == ApplySeq(base, seq)

\* --- C18 ------------------------------------------------------------------
\* propagateExecutabilityRecursive, transcribed
RECURSIVE PropExec(_, _, _)
PropExec(anc, src, tgt) ==
  IF (anc = Nil /\ src = Nil) \/ tgt = Nil THEN tgt
  ELSE IF tgt.k = "dir" THEN
     IF ChildNames(src) = {} /\ ChildNames(anc) = {} THEN tgt
     ELSE D([n \in DOMAIN tgt.c |-> PropExec(Child(anc, n), Child(src, n), tgt.c[n])])
  ELSE IF tgt.k = "file" THEN
     IF src.k = "file" /\ src.d = tgt.d THEN F(tgt.d, src.x)
     ELSE IF anc.k = "file" /\ anc.d = tgt.d THEN F(tgt.d, anc.x)
     ELSE IF src.k = "file" /\ anc.k = "file" /\ src.d = anc.d THEN F(tgt.d, src.x)
     ELSE tgt
  ELSE tgt

\* both sides replaced the file's content since the last synchronization (and disagree):
\* the one case in which executability is knowingly not carried over
BothEdited(anc, p, n, q) ==
  LET a == At(anc, q) pp == At(p, q) nn == At(n, q) IN
  /\ pp.k = "file" /\ nn.k = "file" /\ pp.d # nn.d
  /\ ~(a.k = "file" /\ (a.d = pp.d \/ a.d = nn.d))
\* P: content of the preserving side, N: of the other side (as propagated); cs: changes planned for P.
\* The bit on P survives every change synchronization plans for P, except where the change restores
\* the last-synchronized file exactly (P's own edit being reverted by a one-way/resolved mode) or
\* both sides replaced the content.
C18_ExecStable(anc, p, n, cs) ==
  \A c \in cs : \A q \in Nodes(c.new) :
     LET full == c.path \o q IN
     (At(c.new, q).k = "file" /\ At(p, full).k = "file" /\ At(n, full).k = "file" /\ ~BothEdited(anc, p, n, full))
        => \/ At(c.new, q).x = At(p, full).x
           \/ At(c.new, q) = At(anc, full)
\* the non-preserving side takes executability only from matching content on the preserving side or in
\* the ancestor (or from the preserving side when that side is unmodified), never from elsewhere;
\* matching content on the preserving side always wins
C18_SourcesOnly(anc, p, nprop) ==
  \A q \in Nodes(nprop) :
     LET t == At(nprop, q) s == At(p, q) a == At(anc, q) IN
     t.k = "file" =>
       /\ (s.k = "file" /\ s.d = t.d) => t.x = s.x
       /\ t.x => \/ (s.k = "file" /\ s.x /\ (s.d = t.d \/ (a.k = "file" /\ a.d = s.d)))
                 \/ (a.k = "file" /\ a.x /\ a.d = t.d)

\* --- staging dependencies (core/stage.go TransitionDependencies) -----------------
\* every file the transitions will create, as (path, digest), except file-to-file
\* transitions that only change the executable bit
FilesOf(path, e) == {[path |-> path \o q, d |-> At(e, q).d] : q \in {r \in Nodes(e) : At(e, r).k = "file"}}
Deps(cs) == UNION {IF c.old.k = "file" /\ c.new.k = "file" /\ c.old.d = c.new.d THEN {} ELSE FilesOf(c.path, c.new) : c \in cs}
====
