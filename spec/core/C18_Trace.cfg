CONSTANT Want = {"C18_ExecStable", "C18_SourcesOnly", "Conforms"}
SPECIFICATION TSpec
CHECK_DEADLOCK FALSE
